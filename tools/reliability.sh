#!/bin/bash
# For every seeded defect: run the target property's quick check at further VERIF_SEED values (recorded in meta.json).
cd "$(dirname "$0")/.."
run() { /venv/bin/python tools/seeded.py rerun $1 --seeds ${SEEDS:-2,3} > /tmp/seed_logs/rel_$1.log 2>&1; echo "done $1 $(tail -1 /tmp/seed_logs/rel_$1.log)"; }
export -f run
ls seeded | xargs -P 2 -I{} bash -c 'run {}'
