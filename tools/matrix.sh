#!/bin/bash
# Cross-run every seeded defect against the cross-cutting checks and its module family (records into seeded/*/meta.json).
cd "$(dirname "$0")/.."
run() {
  name=$1
  files=$(grep '^+++ ' seeded/$name/patch.diff | tr '\n' ' ')
  props="C01,C02,C15,C16,C17"
  case "$files" in
    *streams.py*|*results.py*|*config.py*|*stores.py*) props="C05,C06,C07,C18,C19";;
    *config_creator*) props="C20,C01";;
    *utils.py*) props="C01,C02,C10,C14,C15,C17,C19,C07";;
  esac
  /venv/bin/python tools/seeded.py rerun $name --props $props > /tmp/seed_logs/mx_$name.log 2>&1
  echo "done $name"
}
export -f run
ls seeded | xargs -P 2 -I{} bash -c 'run {}'
