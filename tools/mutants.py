#!/venv/bin/python
"""Sensitivity harness: apply one small edit to a scratch copy of ioos_qc, run the quick checks that should notice,
expect exit 1. Usage: tools/mutants.py [name-substring ...] [--props C09,C02] [--tier quick]

Catalogue entries: (name, file, old, new, [properties expected to kill it]). `old` must occur exactly once
(unless a count is given as 6th element).
"""
import argparse
import json
import os
import shutil
import subprocess
import sys
import tempfile
import time

HERE = os.path.dirname(os.path.dirname(os.path.abspath(__file__)))
sys.path.insert(0, os.path.dirname(os.path.abspath(__file__)))
from mutant_catalogue import MUTANTS  # noqa: E402


def run_one(m, props, tier, keep=False):
    name, rel, old, new, expected = m[:5]
    count = m[5] if len(m) > 5 else 1
    d = tempfile.mkdtemp(prefix="vfmut.")
    try:
        shutil.copytree("/repo/ioos_qc", os.path.join(d, "ioos_qc"))
        p = os.path.join(d, rel)
        s = open(p).read()
        if s.count(old) != count:
            return {"name": name, "error": f"pattern occurs {s.count(old)} times, expected {count}"}
        open(p, "w").write(s.replace(old, new))
        res = {}
        for pid in (props or expected):
            env = dict(os.environ, VERIF_REPO=d, VERIF_OUT=os.path.join(d, "out"))
            t0 = time.time()
            r = subprocess.run([os.path.join(HERE, "check"), pid, "--tier", tier], env=env, capture_output=True,
                               text=True)
            first = next((l for l in r.stdout.splitlines() if l.startswith("  sub=")), "")
            res[pid] = {"rc": r.returncode, "s": round(time.time() - t0, 1), "first": first.strip()[:160]}
            if r.returncode == 2:
                res[pid]["stderr"] = r.stderr[-600:]
        return {"name": name, "results": res}
    finally:
        shutil.rmtree(d, ignore_errors=True)


def main():
    ap = argparse.ArgumentParser()
    ap.add_argument("names", nargs="*")
    ap.add_argument("--props")
    ap.add_argument("--tier", default="quick")
    ap.add_argument("--json")
    a = ap.parse_args()
    props = a.props.split(",") if a.props else None
    out = []
    for m in MUTANTS:
        if a.names and not any(n in m[0] for n in a.names):
            continue
        if props and not a.names and not (set(props) & set(m[4])):
            continue
        use = props or m[4]
        if props and not a.names:
            use = [p for p in props if p in m[4]]
        r = run_one(m, use, a.tier)
        out.append(r)
        if "error" in r:
            print(f"{r['name']:45s} ERROR {r['error']}")
            continue
        for pid, x in r["results"].items():
            verdict = {1: "KILLED", 0: "SURVIVED", 2: "HARNESS-ERROR"}.get(x["rc"], str(x["rc"]))
            print(f"{r['name']:45s} {pid} {verdict:9s} {x['s']:6.1f}s {x['first']}")
            if x["rc"] == 2:
                print(x.get("stderr", ""))
    if a.json:
        json.dump(out, open(a.json, "w"), indent=1)


if __name__ == "__main__":
    main()
