#!/venv/bin/python
"""Regenerates /verif/MANIFEST.json from the table below (one entry per registered property check)."""
import json
import os

HERE = os.path.dirname(os.path.dirname(os.path.abspath(__file__)))
BASE = ("cd /repo && /venv/bin/python -m pytest -ra -q -p no:cacheprovider --timeout=900 "
        "--continue-on-collection-errors")

# id -> (technique, level text, level note, design ref)
CHECKS = {
    "C09": ("Hypothesis generated search + exhaustive small-alphabet sweep against a per-point reference model",
            "Generated-input search: every case is compared point by point with a slow pure-Python model written from "
            "the statement; thresholds are placed exactly on / one grid step beside interior spike magnitudes; all "
            "series of length <=6 over {0,+-1,+-2,missing} (quick: <=4) are enumerated. Finds operator, index-offset and "
            "assignment-order edits; proves nothing beyond the explored cases.",
            "dyadic value grid (exact float arithmetic); numpy/pandas as installed; interior point with missing "
            "neighbour may be MISSING or UNKNOWN",
            "DESIGN.md 4 C09"),
}

GEN = ("Generated-input search (Hypothesis strategies built by construction on dyadic grids, boundary-biased) compared "
       "point by point with a slow pure-Python reference model written from the statement; ")
GRID = "dyadic value grid (exact float arithmetic); numpy 1.26 / pandas 3.0 as installed; "
CHECKS.update({
    "C03": ("Hypothesis generated search + exhaustive integer-grid sweep against literal interval-membership model",
            GEN + "values are placed on, one grid step beside and far from all bounds; suspect spans outside the fail span "
            "must raise ValueError; all spans over {0..4}^2x{0..4}^2 and all valid_range bound/inclusivity combinations "
            "are enumerated.", GRID + "valid_range_test gets float, signed / unsigned integer (fractional or absent bounds, dtype= given or not) "
            "and datetime64 ndarrays (bounds finer or coarser than the data, 'open ended' far-away dates), lower<=upper; "
            "magnitudes up to 2^40", "DESIGN.md 4 C03, 11.5 rounds 5-7"),
    "C04": ("Hypothesis generated search + exhaustive alphabet sweep; pointwise precedence model + algebraic laws",
            "Every generated tuple of flag vectors (uint8/int64/float64, plain or masked with flag-valued junk under the "
            "mask, non-flag values) is compared with a pointwise precedence model and checked for permutation / "
            "duplication invariance, idempotence, associativity over a split, aggregate(result objects of real test "
            "functions) and the PandasStore.compute_aggregate() roll-up over interleaved streams == the model; every "
            "tuple of <=3 vectors of length <=2 over {1,2,3,4,9,0,7,masked} is enumerated (thorough).",
            "vectors are equal-length 1-d numpy arrays as the function asserts", "DESIGN.md 4 C04"),
    "C08": ("Hypothesis generated search + exhaustive calendar-day sweep against a literal last-match-wins model",
            GEN + "times sit on ISO-week / day-of-year / month edges, tspan ends on observation times, values on span "
            "bounds, depths missing under depth-banded members; every calendar day 2018-12-24..2022-01-07 is swept "
            "against single periodic members.", GRID + "python datetime calendar arithmetic is the trusted definition of "
            "the calendar periods; naive UTC whole seconds", "DESIGN.md 4 C08"),
    "C10": ("Hypothesis generated search against exact Fraction (rate) and geographiclib (speed) reference models",
            GEN + "thresholds are set exactly on a pair's rate / a hop's speed and 1 grid step / 1% beside it; irregular "
            "axes from 1 s to 25 h; mismatched lengths must raise ValueError.",
            GRID + "geographiclib Geodesic.WGS84.Inverse is the trusted geodesic; partly present positions not judged",
            "DESIGN.md 4 C10"),
    "C11": ("Hypothesis generated search + exhaustive small-alphabet sweep against a per-point window model",
            GEN + "durations include non-multiples of the step, shorter than a step and longer than the series; "
            "tolerances on and beside the window ranges present; all series of length <=7 over {0,0.5,1,missing} are "
            "enumerated with 25 duration pairs and 4 tolerances.", GRID + "regular sampling (premise of the statement), steps from 1/8 s to a week",
            "DESIGN.md 4 C11"),
    "C12": ("Hypothesis generated search against a per-point trailing-window model",
            GEN + "all 8 mode combinations (std/range x none/period/min_obs/min_period), periods exactly equal to point "
            "distances (open left end), thresholds beside (range: exactly on) the spreads the model computes.",
            GRID + "std spreads within 1e-4 of a threshold are not judged; windowed range with a missing value in the "
            "window may be UNKNOWN", "DESIGN.md 4 C12"),
    "C13": ("Hypothesis generated search against pairwise model + mirror (reverse) metamorphic relation",
            GEN + "density increments are placed on and one grid step beside each threshold on down/up/down-up/"
            "stationary/repeated-depth casts; the reversed profile must give reversed flags when nothing is missing; "
            "pressure profiles (float, signed / unsigned integer, masked, list and Series carriers, with missing values) are "
            "compared with a direction-sign model over the pairs whose two members are present.",
            GRID + "pressure profiles with zero mean step are not judged; how a missing pressure itself is flagged is left "
            "open (GOOD, UNKNOWN or MISSING)", "DESIGN.md 4 C13"),
    "C14": ("Hypothesis generated search against statement-order model with geographiclib distances",
            GEN + "positions on / beside box edges, partially missing positions, range_max exactly on a hop distance and "
            "1% beside it; shape mismatch and malformed bbox must be rejected.",
            GRID + "geographiclib Geodesic.WGS84.Inverse is the trusted geodesic", "DESIGN.md 4 C14"),
})

CHECKS.update({
    "C01": ("Hypothesis generated search with a validity predicate + rule-based state machine (call histories) + A-B-A differential",
            "Every test function is called on generated series (arbitrary finite float64 incl. 1e308 and subnormals, NaN/None/"
            "masked, lengths 0-2 forced) under several carriers and must return one unmasked valid flag per element, leave "
            "every argument byte-identical and repeat its answer; a Hypothesis RuleBasedStateMachine interleaves tests on a "
            "pool of fixtures with other stateful corners of the package and requires history-independent results; every "
            "fixture's argument objects (incl. ClimatologyConfig objects, digested with all attributes) stay alive for the "
            "whole history, are compared with freshly built equal objects and are cross-used between fixtures.",
            "pressure_increasing_test / valid_range_test get float64 arrays only; strictly increasing whole-second axes",
            "DESIGN.md 4 C01"),
    "C02": ("Exhaustive enumeration of all 2^n missing-value placements (n<=9; joint value x auxiliary placements n<=5) + Hypothesis search; forward and converse predicates",
            "For 10 tests, every placement of missing markers in the observation series (n<=9) and every joint placement in "
            "(value, depth) / (lon, lat) (n<=5) is run over several value sequences and parameter families incl. every "
            "climatology member shape, and longer generated series under None/NaN/masked carriers; a missing observation "
            "must be MISSING (UNKNOWN only where the test is undefined anyway) and MISSING may only appear where a needed "
            "input is missing.", "the table of needed inputs / undefined positions per test is read off the statement",
            "DESIGN.md 4 C02"),
})

CHECKS.update({
    "C16": ("Hypothesis generated search; metamorphic monotonicity relation over constructed (loose, strict, stricter) parameter chains",
            "For each threshold-driven test a data case is run under a chain of parameter sets tightened by construction "
            "(spans nested, thresholds moved in the strict direction, absent->given); severity GOOD<SUSPECT<FAIL must "
            "never decrease and the UNKNOWN/MISSING set must stay identical for all three pairs of the chain. Needs no "
            "reference model, so it also covers parameter regions the per-test models treat as ambiguous.",
            "dyadic grids so tightening is exact", "DESIGN.md 4 C16"),
    "C17": ("Hypothesis generated search; metamorphic relations (offset, negation, time shift, joint shift, reversal) and single-point locality",
            "Each base case is re-run after an exact transformation (constant added / values negated / all times shifted by "
            "whole seconds up to +-1e9 across the epoch / data and spans shifted together / series reversed) and the flag "
            "arrays must be equal (reversed for reversal); one observation is then changed (other value, present<->missing) "
            "and flags outside the test's stated neighbourhood must not move.",
            "transformations exact on the dyadic grid; attenuated-std cases with a spread within 1e-4 of a threshold skipped",
            "DESIGN.md 4 C17"),
})

CHECKS.update({
    "C15": ("Hypothesis generated search; metamorphic carrier-equivalence relation (every carrier vs the canonical one)",
            "One logical case per test is rendered through 17 data/auxiliary carriers (lists with None/NaN, tuple, float32, "
            "int64 / int16 / unsigned, masked arrays with NaN or finite junk under the mask, integer masked arrays, a masked "
            "array whose fill_value equals a valid value, pandas Series with default/shifted index, dask, object arrays), 23 "
            "time carriers (datetime64 from days to nanoseconds, naive / UTC-aware / America/New_York datetimes, Timestamps, "
            "DatetimeIndex and Series, epoch seconds as list, int64, int32, float, pandas Series and Index) and list/tuple "
            "spans, one at a time and mixed; flags "
            "must equal those under float64 + datetime64[ns] (also for sub-second instants). valid_range_test is swept "
            "separately with and without dtype=. A further sub-check refills the *same* list / array objects with a second "
            "logical case and compares with fresh canonical arrays (identity-keyed state).",
            "values representable in float32 for the float32 carrier; dask time arrays not generated", "DESIGN.md 4 C15"),
})

CHECKS.update({
    "C07": ("Hypothesis grammar-based generation of config trees; reference model of the call multiset + pairwise carrier/layout equivalence",
            "A generated configuration tree is spelled through up to 17 carriers (dict, OrderedDict, YAML block/flow text, "
            "JSON text, StringIO, str/Path to .yaml/.json files, xarray Dataset global attribute and per-variable "
            "attributes, netCDF-3 files of both) and every layout that can express it (contexts list, single context, bare "
            "stream mapping, bare module mapping with generated default key); Config(source).calls must equal, as a "
            "multiset, the model's (stream, module, test, kwargs, window, region) set with func identity, Call.config() and "
            "the contexts grouping. Unknown modules / test names are sprinkled in and must not disturb the rest.",
            "reserved stream ids not generated; datetime windows only over dict/OrderedDict/YAML; known finding K-4 excluded "
            "by its classifier (bare stream mapping whose tests all have null parameters)", "DESIGN.md 4 C07"),
})

CHECKS.update({
    "C06": ("Hypothesis generated search over ContextResult sequences and yield orders; reference scatter model",
            "Hand-built ContextResult sequences shaped like the streams' output (disjoint row groups incl. empty and "
            "all-covering, several keys per group, same test name in two modules, absent axis arrays, uint8/int64 flags) "
            "are collected in list and dict form under several yield orders (thorough: every permutation when <=5 "
            "results) and compared row by row with a scatter model: flag on covered rows, masked / UNKNOWN elsewhere, "
            "source values of data/time/depth/position on covered rows; read-only input arrays (pandas copy-on-write) are "
            "included. Domain B runs generated tables/configs end to end through four stream front ends and compares the "
            "collected list/dict forms and axis arrays with the scatter of the direct calls.",
            "disjoint windows; one CallResult per ContextResult as all stream front ends emit", "DESIGN.md 4 C06"),
})

CHECKS.update({
    "C05": ("Hypothesis generated search; differential oracle (front end vs direct call on the model's window rows) with run-time probe tests",
            "Generated data tables (0-25 rows, optional z/lat/lon/time columns, five row-index kinds) and configs (1-3 "
            "contexts; closed, one-sided, empty, all-covering or absent windows cut exactly on row timestamps; 11 runnable "
            "tests plus two probe tests that record the arrays they are handed) are run through PandasStream, "
            "NumpyStream(dict/array), XarrayStream (time as coordinate / as data variable / z-lat-lon as coordinates / on "
            "another dimension / from a netCDF-3 path), NetcdfStream (Dataset / path) and QcConfig.run (own sub-check: tinp as "
            "array, list of datetimes or Timestamps, Series, DatetimeIndex; sub-second sampling); the multiset of (stream, "
            "test, row mask, flags) must equal the direct calls on {starting <= t < ending} and the probes must have "
            "received exactly the restricted arrays.",
            "naive windows, no regions; open findings K-2/K-10 (XarrayStream windows when time is not a coordinate / axes on another "
            "dimension) are excluded only when the outcome equals what those defects produce exactly", "DESIGN.md 4 C05"),
})

CHECKS.update({
    "C18": ("Hypothesis generated fault injection into configs; differential oracle (run with faults vs each healthy test alone)",
            "Healthy configs get 1-4 faulty entries of every stated kind (unknown module / test, rejected parameters, "
            "missing time / depth / position input, absent stream id, callable that raises) inserted at generated positions "
            "(also before healthy tests and before healthy streams); on PandasStream, NumpyStream(dict), XarrayStream and "
            "NetcdfStream the collected results must equal, key by key and flag by flag, the union of running each "
            "runnable entry alone, entries that cannot run (decided by an independent direct call) must contribute no "
            "key, and nothing may raise.",
            "windows closed with cut points strictly between rows; fault kinds limited to those the statement lists",
            "DESIGN.md 4 C18"),
})

CHECKS.update({
    "C19": ("Hypothesis generated search; column model of PandasStore.save over all write_data/write_axes combinations and include/exclude lists",
            "Runs generated through PandasStream (1-3 contexts with disjoint windows, stream ids with dots, spaces, dashes, "
            "unicode, leading digits/underscores and colliding pairs) are stored with every (write_data, write_axes) "
            "combination, include/exclude lists over stream ids, test names, test functions and non-matching names, "
            "optionally after compute_aggregate; the frame is compared with a column model (row count/order, one CF-safe "
            "column per passing result with flags on evaluated rows and nulls elsewhere, no unexpected column, data and axis "
            "columns, roll-up == pointwise aggregate). cf_safe_name is checked on arbitrary text.",
            "open finding K-7 (sanitised-name collision) excluded by its classifier; idempotence of cf_safe_name is not "
            "demanded (the statement does not)", "DESIGN.md 4 C19"),
})

CHECKS.update({
    "C20": ("Hypothesis grammar-based generation + rule-based state machine (evaluation histories) + atheris coverage-guided fuzzing (thorough) with an independent AST evaluator; synthetic-climatology differential for create_config",
            "Expressions generated from the stated grammar (depth <=5) are rendered as tokens and eval_fx must equal, exactly, "
            "an independent AST evaluator doing the same IEEE operations; a RuleBasedStateMachine interleaves well-formed "
            "evaluations with truncated / unbalanced expressions, unknown identifiers, statistic switches and validator "
            "calls and demands history-free results; token strings with near-misses must be accepted / rejected by "
            "QcVariableConfig exactly per token class; synthetic time-constant climatologies (netCDF-3, 2-D/3-D, NaN "
            "cells) with boxes on/between grid lines and 1-365 day ranges must yield spans equal to the expressions on the "
            "in-box cell statistics (1e-9). Thorough adds 16 atheris (libFuzzer) campaigns with both oracles inside the "
            "target.",
            "unary plus, ^, functions, E/PI are outside the grammar; float() spellings that are not decimal literals are not "
            "judged; spline of a constant field is constant up to rounding", "DESIGN.md 4 C20"),
})

NOT_APPLICABLE = {}


def main():
    props = [json.loads(l) for l in open(os.path.join(HERE, "properties.jsonl"))]
    checks = []
    for p in props:
        pid = p["id"]
        if pid not in CHECKS:
            continue
        tech, text, note, ref = CHECKS[pid]
        checks.append({
            "property_id": pid,
            "quick_cmd": f"./check {pid} --tier quick",
            "thorough_cmd": f"./check {pid} --tier thorough",
            "evidence_file": f"evidence/{pid}.json",
            "replay_cmd_template": f"./check {pid} --replay {{path}}",
            "engine": "vf",
            "level_claimed": {"category": "fault_enumeration" if pid == "C18" else "exploration", "text": text, "design_ref": ref},
            "level_note": note,
            "technique": tech,
        })
    na = [{"property_id": p["id"], "reason": NOT_APPLICABLE.get(p["id"], "check not built yet in this round (see DESIGN.md 10); no claim is made")}
          for p in props if p["id"] not in CHECKS]
    man = {
        "version": 1,
        "setup_cmd": "/venv/bin/python -m vf.env",
        "hooks": {
            "guard": "IOOS_QC_VERIF",
            "enable": "no source hooks exist: ioos_qc is pure Python and is imported from /repo's working tree in a fresh process per check; the one probe needed (which arrays a stream hands to a test) is registered at run time from the harness",
            "baseline_off_cmd": BASE,
            "source_commits": [],
            "add_only": True,
        },
        "engines": [{"name": "vf", "path": "vf/", "serves_properties": [c["property_id"] for c in checks],
                     "kind_free_text": "Hypothesis 6.168 strategies / stateful machines + exhaustive enumeration on a 16-process pool, explicit reference-model / metamorphic / differential oracles, shrunk JSON replays"}],
        "checks": checks,
        "not_applicable": na,
        "notes": "quick = ./check <ID> --tier quick (corpus replay + generated campaign, <= ~90 s); thorough = 16 shards + exhaustive sweeps. Exit 2 = harness error. Known findings: known_findings.json.",
    }
    with open(os.path.join(HERE, "MANIFEST.json"), "w") as f:
        json.dump(man, f, indent=1)
    print("wrote MANIFEST.json with", len(checks), "checks")


if __name__ == "__main__":
    main()
