#!/venv/bin/python
"""Regenerates /verif/MANIFEST.json from the table below (one entry per registered property check)."""
import json
import os

HERE = os.path.dirname(os.path.dirname(os.path.abspath(__file__)))
BASE = ("cd /repo && /venv/bin/python -m pytest -ra -q -p no:cacheprovider --timeout=900 "
        "--continue-on-collection-errors")

# id -> (technique, level text, level note, design ref)
CHECKS = {
    "C09": ("Hypothesis generated search + exhaustive small-alphabet sweep against a per-point reference model",
            "Generated-input search: every case is compared point by point with a slow pure-Python model written from "
            "the statement; thresholds are placed exactly on / one grid step beside interior spike magnitudes; all "
            "series of length <=5 over {0,+-1,+-2,missing} are enumerated. Finds operator, index-offset and "
            "assignment-order edits; proves nothing beyond the explored cases.",
            "dyadic value grid (exact float arithmetic); numpy/pandas as installed; interior point with missing "
            "neighbour may be MISSING or UNKNOWN",
            "DESIGN.md 4 C09"),
}

NOT_APPLICABLE = {}


def main():
    props = [json.loads(l) for l in open(os.path.join(HERE, "properties.jsonl"))]
    checks = []
    for p in props:
        pid = p["id"]
        if pid not in CHECKS:
            continue
        tech, text, note, ref = CHECKS[pid]
        checks.append({
            "property_id": pid,
            "quick_cmd": f"./check {pid} --tier quick",
            "thorough_cmd": f"./check {pid} --tier thorough",
            "evidence_file": f"evidence/{pid}.json",
            "replay_cmd_template": f"./check {pid} --replay {{path}}",
            "engine": "vf",
            "level_claimed": {"category": "exploration", "text": text, "design_ref": ref},
            "level_note": note,
            "technique": tech,
        })
    na = [{"property_id": p["id"], "reason": NOT_APPLICABLE.get(p["id"], "check not built yet in this round (see DESIGN.md 10); no claim is made")}
          for p in props if p["id"] not in CHECKS]
    man = {
        "version": 1,
        "setup_cmd": "/venv/bin/python -m vf.env",
        "hooks": {
            "guard": "IOOS_QC_VERIF",
            "enable": "no source hooks exist: ioos_qc is pure Python and is imported from /repo's working tree in a fresh process per check; the one probe needed (which arrays a stream hands to a test) is registered at run time from the harness",
            "baseline_off_cmd": BASE,
            "source_commits": [],
            "add_only": True,
        },
        "engines": [{"name": "vf", "path": "vf/", "serves_properties": [c["property_id"] for c in checks],
                     "kind_free_text": "Hypothesis 6.168 strategies / stateful machines + exhaustive enumeration on a 16-process pool, explicit reference-model / metamorphic / differential oracles, shrunk JSON replays"}],
        "checks": checks,
        "not_applicable": na,
        "notes": "quick = ./check <ID> --tier quick (corpus replay + generated campaign, <= ~90 s); thorough = 16 shards + exhaustive sweeps. Exit 2 = harness error. Known findings: known_findings.json.",
    }
    with open(os.path.join(HERE, "MANIFEST.json"), "w") as f:
        json.dump(man, f, indent=1)
    print("wrote MANIFEST.json with", len(checks), "checks")


if __name__ == "__main__":
    main()
