#!/venv/bin/python
"""Runs the repository's own suite (hooks guard off - there are none) and compares with BASELINE.json stable_pass."""
import json
import subprocess
import sys
import tempfile
import xml.etree.ElementTree as ET

base = json.load(open("/root/.vp/BASELINE.json"))
with tempfile.NamedTemporaryFile(suffix=".xml") as f:
    cmd = base["cmd"].replace("<file>", f.name)
    subprocess.run(cmd, shell=True, stdout=subprocess.DEVNULL, stderr=subprocess.DEVNULL)
    root = ET.parse(f.name).getroot()
passed = set()
for tc in root.iter("testcase"):
    if not any(ch.tag in ("failure", "error", "skipped") for ch in tc):
        passed.add(f"{tc.get('classname')}::{tc.get('name')}")
missing = sorted(set(base["stable_pass"]) - passed)
print("passed", len(passed), "baseline", len(base["stable_pass"]), "missing", missing)
sys.exit(1 if missing else 0)
