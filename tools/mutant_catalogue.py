"""(name, file relative to the scratch root, old, new, [properties expected to kill it], occurrences=1)"""
Q = "ioos_qc/qartod.py"
MUTANTS = [
    ("spike_suspect_ge", Q, "flag_arr[diff > suspect_threshold] = QartodFlags.SUSPECT",
     "flag_arr[diff >= suspect_threshold] = QartodFlags.SUSPECT", ["C09"]),
    ("spike_fail_ge", Q, "flag_arr[diff > fail_threshold] = QartodFlags.FAIL",
     "flag_arr[diff >= fail_threshold] = QartodFlags.FAIL", ["C09"]),
    ("spike_ref_offset", Q, "ref[1:-1] = (inp[0:-2] + inp[2:]) / 2", "ref[1:-1] = (inp[1:-1] + inp[2:]) / 2", ["C09"]),
    ("spike_diff_zeroing_gt", Q, "diff[1:-1][ref[:-1] * ref[1:] >= 0] = 0", "diff[1:-1][ref[:-1] * ref[1:] > 0] = 0",
     ["C09"]),
    ("spike_order_swapped", Q,
     """    if suspect_threshold is not None:
        with np.errstate(invalid="ignore"):
            flag_arr[diff > suspect_threshold] = QartodFlags.SUSPECT

    # If n-1 - ref is greater than the high threshold, FAIL test
    if fail_threshold is not None:
        with np.errstate(invalid="ignore"):
            flag_arr[diff > fail_threshold] = QartodFlags.FAIL
""",
     """    if fail_threshold is not None:
        with np.errstate(invalid="ignore"):
            flag_arr[diff > fail_threshold] = QartodFlags.FAIL

    if suspect_threshold is not None:
        with np.errstate(invalid="ignore"):
            flag_arr[diff > suspect_threshold] = QartodFlags.SUSPECT
""", ["C09", "C16"]),
    ("spike_last_not_unknown", Q, "    flag_arr[-1] = QartodFlags.UNKNOWN\n", "    pass\n", ["C09"]),
    ("spike_zero_threshold_regress", Q, "    if suspect_threshold is not None:\n        with np.errstate(invalid=\"ignore\"):\n            flag_arr[diff > suspect_threshold]",
     "    if suspect_threshold:\n        with np.errstate(invalid=\"ignore\"):\n            flag_arr[diff > suspect_threshold]", ["C09"]),
    ("spike_min_to_max", Q, "np.minimum(np.abs(ref[:-1]), np.abs(ref[1:]))", "np.maximum(np.abs(ref[:-1]), np.abs(ref[1:]))",
     ["C09"]),
]
