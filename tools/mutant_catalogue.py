"""(name, file relative to the scratch root, old, new, [properties expected to kill it], occurrences=1)"""
Q = "ioos_qc/qartod.py"
MUTANTS = [
    ("spike_suspect_ge", Q, "flag_arr[diff > suspect_threshold] = QartodFlags.SUSPECT",
     "flag_arr[diff >= suspect_threshold] = QartodFlags.SUSPECT", ["C09"]),
    ("spike_fail_ge", Q, "flag_arr[diff > fail_threshold] = QartodFlags.FAIL",
     "flag_arr[diff >= fail_threshold] = QartodFlags.FAIL", ["C09"]),
    ("spike_ref_offset", Q, "ref[1:-1] = (inp[0:-2] + inp[2:]) / 2", "ref[1:-1] = (inp[1:-1] + inp[2:]) / 2", ["C09"]),
    ("spike_diff_zeroing_gt", Q, "diff[1:-1][ref[:-1] * ref[1:] >= 0] = 0", "diff[1:-1][ref[:-1] * ref[1:] > 0] = 0",
     ["C09"]),
    ("spike_order_swapped", Q,
     """    if suspect_threshold is not None:
        with np.errstate(invalid="ignore"):
            flag_arr[diff > suspect_threshold] = QartodFlags.SUSPECT

    # If n-1 - ref is greater than the high threshold, FAIL test
    if fail_threshold is not None:
        with np.errstate(invalid="ignore"):
            flag_arr[diff > fail_threshold] = QartodFlags.FAIL
""",
     """    if fail_threshold is not None:
        with np.errstate(invalid="ignore"):
            flag_arr[diff > fail_threshold] = QartodFlags.FAIL

    if suspect_threshold is not None:
        with np.errstate(invalid="ignore"):
            flag_arr[diff > suspect_threshold] = QartodFlags.SUSPECT
""", ["C09", "C16"]),
    ("spike_last_not_unknown", Q, "    flag_arr[-1] = QartodFlags.UNKNOWN\n", "    pass\n", ["C09"]),
    ("spike_zero_threshold_regress", Q, "    if suspect_threshold is not None:\n        with np.errstate(invalid=\"ignore\"):\n            flag_arr[diff > suspect_threshold]",
     "    if suspect_threshold:\n        with np.errstate(invalid=\"ignore\"):\n            flag_arr[diff > suspect_threshold]", ["C09"]),
    ("spike_min_to_max", Q, "np.minimum(np.abs(ref[:-1]), np.abs(ref[1:]))", "np.maximum(np.abs(ref[:-1]), np.abs(ref[1:]))",
     ["C09"]),
]
A = "ioos_qc/axds.py"
MUTANTS += [
    ("gross_fail_lower_le", Q, "flag_arr[(inp < sspan.minv) | (inp > sspan.maxv)] = QartodFlags.FAIL",
     "flag_arr[(inp <= sspan.minv) | (inp > sspan.maxv)] = QartodFlags.FAIL", ["C03"]),
    ("gross_suspect_upper_ge", Q, "flag_arr[(inp < uspan.minv) | (inp > uspan.maxv)] = QartodFlags.SUSPECT",
     "flag_arr[(inp < uspan.minv) | (inp >= uspan.maxv)] = QartodFlags.SUSPECT", ["C03"]),
    ("gross_no_sort_suspect", Q, "uspan = span(*sorted(suspect_span))", "uspan = span(*suspect_span)", ["C03"]),
    ("gross_contain_check_le", Q, "if uspan.minv < sspan.minv or uspan.maxv > sspan.maxv:",
     "if uspan.minv < sspan.minv and uspan.maxv > sspan.maxv:", ["C03"]),
    ("valid_start_exclusive_default", A, "if start_inclusive is True:\n                flag_arr[inp < valid_span[0]]",
     "if start_inclusive is not True:\n                flag_arr[inp < valid_span[0]]", ["C03"]),
    ("valid_end_ge_to_gt", A, "flag_arr[inp >= valid_span[1]] = QartodFlags.FAIL", "flag_arr[inp > valid_span[1]] = QartodFlags.FAIL",
     ["C03"]),
    ("valid_missing_upper_ignored_lower", A, "    if not isnan(valid_span[1]):", "    if not isnan(valid_span[0]):", ["C03"]),
]
MUTANTS += [
    ("compare_priority_swap_good_unknown", Q, "        QartodFlags.UNKNOWN,\n        QartodFlags.GOOD,\n        QartodFlags.SUSPECT,\n        QartodFlags.FAIL,\n    ]",
     "        QartodFlags.GOOD,\n        QartodFlags.UNKNOWN,\n        QartodFlags.SUSPECT,\n        QartodFlags.FAIL,\n    ]", ["C04"]),
    ("compare_ignores_mask", Q, "            idx = np.where(v == p)[0]", "            idx = np.where(np.ma.getdata(v) == p)[0]", ["C04"]),
    ("compare_first_vector_wins_fail", Q, "    return result.astype(\"uint8\")", "    result[np.where(vectors[0] == QartodFlags.SUSPECT)[0]] = QartodFlags.SUSPECT\n    return result.astype(\"uint8\")", ["C04"]),
    ("compare_default_unknown", Q, "    result.fill(QartodFlags.MISSING)", "    result.fill(QartodFlags.UNKNOWN)", ["C04"]),
]
R = "ioos_qc/argo.py"
UT = "ioos_qc/utils.py"
MUTANTS += [
    ("roc_ge", Q, "flag_arr[roc > threshold] = QartodFlags.SUSPECT", "flag_arr[roc >= threshold] = QartodFlags.SUSPECT", ["C10"]),
    ("roc_minutes", Q, """        np.diff(inp) / np.diff(tinp).astype("timedelta64[s]").astype(float),
    )

    with np.errstate(invalid="ignore"):
        flag_arr[roc > threshold]""", """        np.diff(inp) / np.diff(tinp).astype("timedelta64[m]").astype(float),
    )

    with np.errstate(invalid="ignore"):
        flag_arr[roc > threshold]""", ["C10"]),
    ("roc_shapecheck_removed", Q, "    if inp.size != tinp.size:\n", "    if False:\n", ["C10"]),
    ("speed_latlon_swapped", UT, "return Geodesic.WGS84.Inverse(y1, x1, y2, x2)[\"s12\"]", "return Geodesic.WGS84.Inverse(x1, y1, x2, y2)[\"s12\"]", ["C10", "C14"]),
    ("speed_fail_ge", R, "flag_arr[speed > fail_threshold] = QartodFlags.FAIL", "flag_arr[speed >= fail_threshold] = QartodFlags.FAIL", ["C10"]),
    ("speed_order_swapped", R, """    with np.errstate(invalid="ignore"):
        flag_arr[speed > suspect_threshold] = QartodFlags.SUSPECT

    with np.errstate(invalid="ignore"):
        flag_arr[speed > fail_threshold] = QartodFlags.FAIL
""", """    with np.errstate(invalid="ignore"):
        flag_arr[speed > fail_threshold] = QartodFlags.FAIL

    with np.errstate(invalid="ignore"):
        flag_arr[speed > suspect_threshold] = QartodFlags.SUSPECT
""", ["C10", "C16"]),
    ("speed_first_good", R, "    # first value is unknown, since we have no speed data for the first point\n    flag_arr[0] = QartodFlags.UNKNOWN", "    pass", ["C10"]),
    ("speed_minutes", R, 'dist[1:] / np.diff(tinp).astype("timedelta64[s]").astype(float)', 'dist[1:] / np.diff(tinp).astype("timedelta64[m]").astype(float)', ["C10"]),
    ("speed_shape_tinp_unchecked", R, "if lon.shape != lat.shape or lon.shape != tinp.shape:", "if lon.shape != lat.shape:", ["C10"]),
]
MUTANTS += [
    ("flat_count_plus1", Q, "count = (int(test_threshold) / time_interval).astype(int)", "count = (int(test_threshold) / time_interval).astype(int) + 1", ["C11", "C17"]),
    ("flat_nfill_off_by_one", Q, "n_fill = min(len(inp), count)", "n_fill = min(len(inp), max(count - 1, 0))", ["C11"]),
    ("flat_range_le", Q, "np.ma.filled(data_range < tolerance, fill_value=False)", "np.ma.filled(data_range <= tolerance, fill_value=False)", ["C11"]),
    ("flat_order_swapped", Q, "    run_test(suspect_threshold, QartodFlags.SUSPECT)\n    run_test(fail_threshold, QartodFlags.FAIL)", "    run_test(fail_threshold, QartodFlags.FAIL)\n    run_test(suspect_threshold, QartodFlags.SUSPECT)", ["C11", "C16"]),
    ("flat_short_series_limit_2", Q, "    if len(inp) < 3:\n        flag_arr[inp.mask]", "    if len(inp) < 2:\n        flag_arr[inp.mask]", ["C11"]),
    ("flat_round_instead_of_floor", Q, "count = (int(test_threshold) / time_interval).astype(int)", "count = np.round(int(test_threshold) / time_interval).astype(int)", ["C11"]),
    ("flat_mean_interval", Q, "time_interval = np.median(np.diff(tinp)).astype(\"timedelta64[s]\").astype(float)\n\n    def rolling_window", "time_interval = np.median(np.diff(tinp)).astype(\"timedelta64[m]\").astype(\"timedelta64[s]\").astype(float)\n\n    def rolling_window", ["C11"]),
    ("flat_short_missing_regress", Q, "        flag_arr[inp.mask] = QartodFlags.MISSING\n        return flag_arr.reshape(original_shape)\n", "        return flag_arr.reshape(original_shape)\n", ["C11", "C02"]),
]
MUTANTS += [
    ("att_closed_both", Q, 'windows = series.rolling(f"{test_period}s", min_periods=min_periods)', 'windows = series.rolling(f"{test_period}s", min_periods=min_periods, closed="both")', ["C12", "C17"]),
    ("att_min_period_inverted", Q, "min_periods = (min_period / time_interval).astype(int)", "min_periods = (time_interval / min_period).astype(int)", ["C12"]),
    ("att_fail_le", Q, "flag_arr[check_val < fail_threshold] = QartodFlags.FAIL", "flag_arr[check_val <= fail_threshold] = QartodFlags.FAIL", ["C12"]),
    ("att_suspect_le", Q, "flag_arr[check_val < suspect_threshold] = QartodFlags.SUSPECT", "flag_arr[check_val <= suspect_threshold] = QartodFlags.SUSPECT", ["C12"]),
    ("att_fail_before_suspect", Q, """    flag_arr[check_val >= suspect_threshold] = QartodFlags.GOOD
    flag_arr[check_val < suspect_threshold] = QartodFlags.SUSPECT
    flag_arr[np.isnan(check_val)] = QartodFlags.UNKNOWN
    flag_arr[check_val < fail_threshold] = QartodFlags.FAIL
""", """    flag_arr[check_val < fail_threshold] = QartodFlags.FAIL
    flag_arr[check_val >= suspect_threshold] = QartodFlags.GOOD
    flag_arr[check_val < suspect_threshold] = QartodFlags.SUSPECT
    flag_arr[np.isnan(check_val)] = QartodFlags.UNKNOWN
""", ["C12"]),
    ("att_window_std_population", Q, "window_func = lambda x: x.std()  # noqa", "window_func = lambda x: x.std(ddof=0)  # noqa", ["C12"]),
    ("att_nowindow_std_sample", Q, "        check_func = np.std\n", "        check_func = lambda a: np.std(a, ddof=1)\n", ["C12"]),
    ("att_min_obs_ignored", Q, "            min_periods = min_obs\n", "            min_periods = None\n", ["C12"]),
    ("att_period_minutes", Q, 'series.rolling(f"{test_period}s"', 'series.rolling(f"{test_period}min"', ["C12"]),
]
MUTANTS += [
    ("density_only_next_flagged", Q, "                flag_arr[:-1][is_fail == True] = QartodFlags.FAIL  # noqa:E712- Previous value\n", "", ["C13"]),
    ("density_suspect_le", Q, "is_suspect = delta < suspect_threshold", "is_suspect = delta <= suspect_threshold", ["C13"]),
    ("density_no_sign", Q, "delta = np.sign(np.diff(zinp)) * np.diff(inp)", "delta = np.diff(inp)", ["C13"]),
    ("density_missing_next_dropped", Q, "    flag_arr[1:][is_missing[:-1]] = QartodFlags.MISSING\n", "", ["C13"]),
    ("pressure_flag_index", R, "flag_idx = np.where(delta <= 0)[0] + 1", "flag_idx = np.where(delta <= 0)[0]", ["C13"]),
    ("pressure_lt", R, "flag_idx = np.where(delta <= 0)[0] + 1", "flag_idx = np.where(delta < 0)[0] + 1", ["C13"]),
    ("pressure_no_flip", R, "    if sign < 0:\n        delta = sign * delta", "    if sign < 0:\n        delta = delta", ["C13"]),
    ("pressure_median_direction", R, "sign = np.sign(np.mean(delta))", "sign = np.sign(np.median(delta))", ["C13"]),
    ("loc_bbox_ge", Q, "(lon < bbox.minx) | (lat < bbox.miny) | (lon > bbox.maxx) | (lat > bbox.maxy)", "(lon < bbox.minx) | (lat < bbox.miny) | (lon >= bbox.maxx) | (lat > bbox.maxy)", ["C14"]),
    ("loc_range_removed", Q, """    if range_max is not None and lon.size > 1:
        # Calculating the great_distance between each point
        # Flag suspect any distance over range_max
        d = great_circle_distance(lat, lon)
        flag_arr[d > range_max] = QartodFlags.SUSPECT
""", "", ["C14"]),
    ("loc_range_ge", Q, "flag_arr[d > range_max] = QartodFlags.SUSPECT", "flag_arr[d >= range_max] = QartodFlags.SUSPECT", ["C14"]),
    ("loc_mismatch_missing", Q, "    flag_arr[mismatch] = QartodFlags.FAIL\n", "    flag_arr[mismatch] = QartodFlags.MISSING\n", ["C14"]),
    ("loc_bbox_minmax_swapped", Q, "(lon < bbox.minx) | (lat < bbox.miny)", "(lon < bbox.miny) | (lat < bbox.minx)", ["C14"]),
    ("loc_shape_unchecked", Q, "    if lon.shape != lat.shape:\n        msg = f\"Lon ({lon.shape}) and lat", "    if False:\n        msg = f\"Lon ({lon.shape}) and lat", ["C14"]),
]
MUTANTS += [
    ("clim_tspan_lt", Q, "t_idx = (tinp_copy >= m.tspan.minv) & (tinp_copy <= m.tspan.maxv)", "t_idx = (tinp_copy >= m.tspan.minv) & (tinp_copy < m.tspan.maxv)", ["C08"]),
    ("clim_zspan_gt", Q, "z_idx = (~zinp.mask) & (zinp >= m.zspan.minv) & (zinp <= m.zspan.maxv)", "z_idx = (~zinp.mask) & (zinp > m.zspan.minv) & (zinp <= m.zspan.maxv)", ["C08"]),
    ("clim_first_match_wins", Q, "        for m in self._members:\n            if m.period is not None:\n                # If a period is defined, extract the attribute from the\n                # pd.DatetimeIndex", "        for m in reversed(self._members):\n            if m.period is not None:\n                # If a period is defined, extract the attribute from the\n                # pd.DatetimeIndex", ["C08"]),
    ("clim_vspan_ge", Q, "suspect_idx = (inp < m.vspan.minv) | (inp > m.vspan.maxv)", "suspect_idx = (inp < m.vspan.minv) | (inp >= m.vspan.maxv)", ["C08"]),
    ("clim_fspan_ignored_low", Q, "fail_idx = (inp < m.fspan.minv) | (inp > m.fspan.maxv)", "fail_idx = (inp > m.fspan.maxv)", ["C08"]),
    ("clim_week_uses_calendar_week", Q, "                        tinp.isocalendar().week,", "                        (tinp.dayofyear - 1) // 7 + 1,", ["C08"]),
    ("clim_missing_value_regress", Q, "                & ~np.ma.getmaskarray(inp)\n", "", ["C08", "C02"]),
    ("clim_no_vspan_sort", Q, "        vspan = span(*sorted(vspan))", "        vspan = span(*vspan)", ["C08"]),
    ("clim_unmatched_good", Q, "        flag_arr.fill(QartodFlags.UNKNOWN)\n\n        # If the value is masked set the flag to MISSING", "        flag_arr.fill(QartodFlags.GOOD)\n\n        # If the value is masked set the flag to MISSING", ["C08"]),
    ("clim_zspan_member_when_all_depth_missing", Q, "            if not isnan(m.zspan) and (not zinp.count() or isnan(zinp.any())):\n                continue\n", "", ["C08"]),
]
MUTANTS += [
    ("c01_clim_mutable_default", Q, "    def __init__(self, members=None) -> None:\n        members = members or []\n        self._members = members", "    def __init__(self, members=[]) -> None:\n        self._members = members", ["C01"]),
    ("c01_gross_masked_result", Q, "    # If the value is masked set the flag to MISSING\n    flag_arr[inp.mask] = QartodFlags.MISSING\n\n    if suspect_span is not None:", "    flag_arr[inp.mask] = np.ma.masked\n\n    if suspect_span is not None:", ["C01", "C02"]),
    ("c01_clim_pops_period", Q, "        for climate_config_dict in config:\n            c.add(**climate_config_dict)", "        for climate_config_dict in config:\n            period = climate_config_dict.pop(\"period\", None)\n            c.add(period=period, **climate_config_dict)", ["C01"]),
    ("c01_spike_empty_regress", Q, "    if flag_arr.size > 0:\n        flag_arr[0] = QartodFlags.UNKNOWN", "    if True:\n        flag_arr[0] = QartodFlags.UNKNOWN", ["C01"]),
    ("c01_density_single_shape", Q, "        flag_arr[0] = QartodFlags.UNKNOWN\n        return flag_arr\n", "        flag_arr[0] = QartodFlags.UNKNOWN\n        return flag_arr[0]\n", ["C01"]),
    ("c01_roc_inplace_abs", Q, "        inp = np.ma.masked_invalid(np.ma.array(inp).astype(np.float64).filled(np.nan))\n\n    # Save original shape\n    original_shape = inp.shape\n    inp = inp.flatten()\n\n    # Start with everything as passing (1)\n    flag_arr = np.ma.ones(inp.size, dtype=\"uint8\")\n\n    # calculate rate of change",
     "        inp = np.ma.masked_invalid(np.asarray(inp, dtype=np.float64), copy=False)\n\n    # Save original shape\n    original_shape = inp.shape\n    inp = inp.ravel()\n    np.abs(inp.data, out=inp.data)\n\n    # Start with everything as passing (1)\n    flag_arr = np.ma.ones(inp.size, dtype=\"uint8\")\n\n    # calculate rate of change", ["C01"]),
]
MUTANTS += [
    ("c02_roc_missing_dropped", Q, "    with np.errstate(invalid=\"ignore\"):\n        flag_arr[roc > threshold] = QartodFlags.SUSPECT\n\n    # If the value is masked set the flag to MISSING\n    flag_arr[inp.mask] = QartodFlags.MISSING", "    with np.errstate(invalid=\"ignore\"):\n        flag_arr[roc > threshold] = QartodFlags.SUSPECT", ["C02", "C10"]),
    ("c02_speed_dist_mask_dropped", R, "    flag_arr[dist.mask] = QartodFlags.MISSING\n", "", ["C10"]),
    ("c02_valid_missing_before_bounds", A, "    # If the value is masked or nan set the flag to MISSING\n    flag_arr[inp.mask] = QartodFlags.MISSING\n\n    return flag_arr.reshape(original_shape)", "    return flag_arr.reshape(original_shape)", ["C02", "C03"]),
    ("c02_attenuated_missing_before_fail", Q, "    flag_arr[check_val < fail_threshold] = QartodFlags.FAIL\n    flag_arr[inp.mask] = QartodFlags.MISSING", "    flag_arr[inp.mask] = QartodFlags.MISSING\n    flag_arr[check_val < fail_threshold] = QartodFlags.FAIL", ["C02", "C12"]),
    ("c02_spike_missing_only_own", Q, "    flag_arr[diff.mask] = QartodFlags.MISSING\n\n    return flag_arr.reshape(original_shape)", "    flag_arr[diff.mask & ~inp.mask] = QartodFlags.GOOD\n    flag_arr[inp.mask] = QartodFlags.MISSING\n\n    return flag_arr.reshape(original_shape)", ["C09"]),
    ("c02_density_missing_overflags", Q, "    flag_arr[1:][is_missing[:-1]] = QartodFlags.MISSING", "    flag_arr[1:][is_missing[:-1]] = QartodFlags.MISSING\n    flag_arr[:-1][is_missing[1:]] = QartodFlags.MISSING", ["C02", "C13"]),
    ("c02_mask_dropped_regress_flat", Q, "        inp = np.ma.masked_invalid(np.ma.array(inp).astype(np.float64).filled(np.nan))\n\n    # Save original shape\n    original_shape = inp.shape\n    inp = inp.flatten()\n\n    # Start with everything as passing\n", "        inp = np.ma.masked_invalid(np.array(inp).astype(np.float64))\n\n    # Save original shape\n    original_shape = inp.shape\n    inp = inp.flatten()\n\n    # Start with everything as passing\n", ["C02", "C15"]),
    ("c02_clim_missing_depth_matches", Q, "                & np.ma.filled(z_idx, fill_value=False).astype(bool)", "                & np.ma.filled(z_idx, fill_value=True).astype(bool)", ["C08"]),
]

MUTANTS += [
    ("c16_gross_suspect_after_fail", Q, """    # Flag suspect outside of sensor span
    with np.errstate(invalid="ignore"):
        flag_arr[(inp < sspan.minv) | (inp > sspan.maxv)] = QartodFlags.FAIL

    return flag_arr.reshape(original_shape)""", """    # Flag suspect outside of sensor span
    with np.errstate(invalid="ignore"):
        flag_arr[(inp < sspan.minv) | (inp > sspan.maxv)] = QartodFlags.FAIL
        if suspect_span is not None:
            flag_arr[(inp < uspan.minv) | (inp > uspan.maxv)] = QartodFlags.SUSPECT

    return flag_arr.reshape(original_shape)""", ["C16", "C03"]),
    ("c16_density_suspect_after_fail", Q, """    if suspect_threshold is not None:
        with np.errstate(invalid="ignore"):
            is_suspect = delta < suspect_threshold
            if any(is_suspect):
                flag_arr[:-1][is_suspect == True] = QartodFlags.SUSPECT  # noqa:E712- Previous value
                flag_arr[1:][is_suspect == True] = QartodFlags.SUSPECT  # noqa:E712- Reversed value

    if fail_threshold is not None:
        with np.errstate(invalid="ignore"):
            is_fail = delta < fail_threshold
            if any(is_fail):
                flag_arr[:-1][is_fail == True] = QartodFlags.FAIL  # noqa:E712- Previous value
                flag_arr[1:][is_fail == True] = QartodFlags.FAIL  # noqa:E712- Reversed Value
""", """    if fail_threshold is not None:
        with np.errstate(invalid="ignore"):
            is_fail = delta < fail_threshold
            if any(is_fail):
                flag_arr[:-1][is_fail == True] = QartodFlags.FAIL  # noqa:E712- Previous value
                flag_arr[1:][is_fail == True] = QartodFlags.FAIL  # noqa:E712- Reversed Value

    if suspect_threshold is not None:
        with np.errstate(invalid="ignore"):
            is_suspect = delta < suspect_threshold
            if any(is_suspect):
                flag_arr[:-1][is_suspect == True] = QartodFlags.SUSPECT  # noqa:E712- Previous value
                flag_arr[1:][is_suspect == True] = QartodFlags.SUSPECT  # noqa:E712- Reversed value
""", ["C16", "C13"]),
    ("c16_clim_suspect_overrides_fail", Q, """                flag_arr[(values_idx & fail_idx)] = QartodFlags.FAIL
                flag_arr[(values_idx & ~fail_idx & suspect_idx)] = QartodFlags.SUSPECT""", """                flag_arr[(values_idx & fail_idx)] = QartodFlags.FAIL
                flag_arr[(values_idx & suspect_idx)] = QartodFlags.SUSPECT""", ["C16", "C08"]),
]

MUTANTS += [
    ("c17_roc_no_abs", Q, "    roc[1:] = np.abs(\n        np.diff(inp) /", "    roc[1:] = np.ma.array(\n        np.diff(inp) /", ["C17", "C10"]),
    ("c17_spike_abs_inside", Q, "        diff = np.abs(inp - ref)\n", "        diff = np.abs(np.abs(inp) - np.abs(ref))\n", ["C17", "C09"]),
    ("c17_mapdates_minute_truncation", UT, "        # numpy datetime objects\n        return dates.astype(\"datetime64[ns]\")", "        # numpy datetime objects\n        return dates.astype(\"datetime64[m]\").astype(\"datetime64[ns]\")", ["C17", "C10"]),
    ("c17_gross_sort_by_abs", Q, "    sspan = span(*sorted(fail_span))\n\n    with warnings.catch_warnings():\n        warnings.simplefilter(\"ignore\")\n        inp = np.ma.masked_invalid(np.ma.array(inp)", "    sspan = span(*sorted(fail_span, key=abs))\n\n    with warnings.catch_warnings():\n        warnings.simplefilter(\"ignore\")\n        inp = np.ma.masked_invalid(np.ma.array(inp)", ["C17", "C03"]),
    ("c17_density_global_direction", Q, "delta = np.sign(np.diff(zinp)) * np.diff(inp)", "delta = np.sign(zinp[-1] - zinp[0]) * np.diff(inp)", ["C17", "C13"]),
    ("c17_flat_tolerance_relative", Q, "test_results = np.ma.filled(data_range < tolerance, fill_value=False)", "test_results = np.ma.filled(data_range < tolerance * (1 + 0 * np.abs(data_max)) + (np.abs(data_max) > 500) * 1.0, fill_value=False)", ["C17"]),
    ("c17_speed_epoch_anchor", R, "        dist[1:] / np.diff(tinp).astype(\"timedelta64[s]\").astype(float),", "        dist[1:] / np.diff(tinp.astype(\"datetime64[s]\").astype(\"int64\").astype(\"float32\")).astype(float),", ["C17"]),
]
MUTANTS += [
    ("c15_epoch_as_ms", UT, 'pd.to_datetime(dates, unit="s")', 'pd.to_datetime(dates, unit="ms")', ["C15"]),
    ("c15_tz_convert_local", UT, "        return dates.tz_convert(None).astype(\"datetime64[ns]\").to_numpy()", "        return dates.tz_convert(\"US/Eastern\").tz_localize(None).astype(\"datetime64[ns]\").to_numpy()", ["C15"]),
    ("c15_tz_wall_clock_regress", UT, "        return dates.tz_convert(None).astype(\"datetime64[ns]\").to_numpy()", "        return dates.tz_localize(None).astype(\"datetime64[ns]\").to_numpy()", ["C15"]),
    ("c15_tzaware_index_regress", UT, "        dates = getattr(dates, \"dt\", dates)\n", "        dates = dates.dt\n", ["C15"]),
    ("c15_valid_list_regress", A, "    original_shape = np.shape(inp)", "    original_shape = inp.shape", ["C15"]),
    ("c15_pandas_naive_day_resolution", UT, "            # pandas time objects without a timezone\n            return dates.to_numpy().astype(\"datetime64[ns]\")", "            # pandas time objects without a timezone\n            return dates.to_numpy().astype(\"datetime64[m]\").astype(\"datetime64[ns]\")", ["C15"]),
    ("c15_epoch_series_regress", UT, "        if getattr(dates.dtype, \"kind\", None) == \"M\":\n", "        if True:\n", ["C15"]),
    ("c15_density_z_mask_dropped", Q, "        zinp = np.ma.masked_invalid(np.ma.array(zinp).astype(np.float64).filled(np.nan))\n\n    # Make sure both inputs are the same size.", "        zinp = np.ma.masked_invalid(np.array(zinp).astype(np.float64))\n\n    # Make sure both inputs are the same size.", ["C15"]),
]
CF = "ioos_qc/config.py"
MUTANTS += [
    ("c07_depth_ge_3", CF, "elif dict_depth(self.config) >= 4:", "elif dict_depth(self.config) >= 3:", ["C07"]),
    ("c07_unknown_test_break", CF, "                            f'No ioos_qc method \"{package}.{testname}\" was found, skipping',\n                        )\n                        continue", "                            f'No ioos_qc method \"{package}.{testname}\" was found, skipping',\n                        )\n                        break", ["C07", "C18"]),
    ("c07_unknown_module_break", CF, "                        f'No ioos_qc package \"{package}\" was found, skipping.',\n                    )\n                    continue", "                        f'No ioos_qc package \"{package}\" was found, skipping.',\n                    )\n                    break", ["C07", "C18"]),
    ("c07_features_first_only", CF, "[shape(feature[\"geometry\"]) for feature in self.config[\"region\"][\"features\"]],", "[shape(feature[\"geometry\"]) for feature in self.config[\"region\"][\"features\"][:1]],", ["C07"]),
    ("c07_default_key_ignored", CF, "                        odict(streams={default_stream_key: self.config}),", "                        odict(streams={\"_stream\": self.config}),", ["C07"]),
    ("c07_contexts_only_first", CF, "                for c in self.config[\"contexts\"]:\n                    self._calls.extend(list(ContextConfig(c).calls))", "                for c in self.config[\"contexts\"][:2]:\n                    self._calls.extend(list(ContextConfig(c).calls))", ["C07"]),
    ("c07_xarray_var_attrs_overwrite", UT, "            merged = dict_update(\n                y.get(vobj.ioos_qc_target, {}),\n                newdict,\n            )", "            merged = newdict", ["C07"]),
    ("c07_stringio_json_only", UT, "        load_funcs = [\n            lambda x: OrderedDict(yaml.load(x)),\n            lambda x: OrderedDict(json.load(x)),\n        ]", "        load_funcs = [\n            lambda x: OrderedDict(json.loads(x)),\n        ]", ["C07"]),
    ("c07_window_ending_dropped_when_no_start", CF, "            self.window = tw(**self.config[\"window\"])", "            self.window = tw(**self.config[\"window\"]) if self.config[\"window\"].get(\"starting\") else tw()", ["C07"]),
    ("c07_kwargs_shared_between_streams", CF, "                    kwargs = kwargs or {}\n", "                    kwargs = kwargs or {}\n                    kwargs.pop(\"method\", None)\n", ["C07"]),
]
MUTANTS += [
    ("c07_context_identity_ignores_region", CF, "            return self.window == other.window and self.region == other.region\n        return False\n\n    def __key__(self):\n        return (\n            self.window,\n            getattr(self.region, \"wkb\", None),\n        )", "            return self.window == other.window\n        return False\n\n    def __key__(self):\n        return (\n            self.window,\n        )", ["C07"]),
]
RS = "ioos_qc/results.py"
MUTANTS += [
    ("c06_dict_fill_good", RS, "        flag_arr.fill(QartodFlags.UNKNOWN)\n\n        # iterate over the CallResults", "        flag_arr.fill(QartodFlags.GOOD)\n\n        # iterate over the CallResults", ["C06"]),
    ("c06_list_overwrite_on_new_context", RS, "            if cr.hash_key not in collected:\n                # Set the initial values", "            if cr.hash_key not in collected or r.subset_indexes.sum() > collected[cr.hash_key].results.count():\n                # Set the initial values", ["C06"]),
    ("c06_hash_key_drops_package", RS, '        return f"{self.stream_id}:{self.package}.{self.test}"', '        return f"{self.stream_id}:{self.test}"', ["C06"]),
    ("c06_axis_scatter_regress", RS, "                if values is None or np.size(values) != n_subset:\n                    continue\n", "", ["C06"]),
    ("c06_all_covering_replaces_results", RS, "            collected[cr.hash_key].results[r.subset_indexes] = tr.results\n", "            if r.subset_indexes.any():\n                collected[cr.hash_key].results[r.subset_indexes] = tr.results\n            else:\n                collected[cr.hash_key].results = np.ma.masked_all(shape=r.subset_indexes.shape, dtype=tr.results.dtype)\n", ["C06"]),
    ("c06_data_only_when_all", RS, "                else:\n                    getattr(collected[cr.hash_key], axis)[r.subset_indexes] = values\n", "", ["C06"]),
]
ST = "ioos_qc/streams.py"
MUTANTS += [
    ("c05_pandas_ending_le", ST, "                            subset[self.time_column] < context.window.ending,", "                            subset[self.time_column] <= context.window.ending,", ["C05"]),
    ("c05_numpy_ending_le", ST, "subset_indexes = (subset_indexes) & (self.tinp < context.window.ending)", "subset_indexes = (subset_indexes) & (self.tinp <= context.window.ending)", ["C05"]),
    ("c05_numpy_starting_gt", ST, "subset_indexes = (subset_indexes) & (self.tinp >= context.window.starting)", "subset_indexes = (subset_indexes) & (self.tinp > context.window.starting)", ["C05"]),
    ("c05_numpy_zinp_not_subset", ST, "                subset_kwargs[\"zinp\"] = self.zinp[subset_indexes]", "                subset_kwargs[\"zinp\"] = self.zinp", ["C05"]),
    ("c05_pandas_lat_is_lon", ST, "                subset_kwargs[\"lat\"] = subset.loc[:, self.lat_column]", "                subset_kwargs[\"lat\"] = subset.loc[:, self.lon_column]", ["C05"]),
    ("c05_numpy_window_needs_both", ST, "            if context.window.starting is not None or context.window.ending is not None:\n                if self.tinp is not None:", "            if context.window.starting is not None and context.window.ending is not None:\n                if self.tinp is not None:", ["C05"]),
    ("c05_pandas_index_regress", ST, "        df = self.df.reset_index(drop=True)\n", "        df = self.df\n", ["C05"]),
    ("c05_numpy_reshape_regress", ST, "                if data_input.size == runinput.size:\n                    data_input = data_input.reshape(original_shape)", "                data_input = data_input.reshape(original_shape)", ["C05"]),
    ("c05_xarray_z_not_subset", ST, "                    subset_kwargs[\"zinp\"] = ds[self.z_var].sel(**label_indexes).to_numpy()\n                elif self.z_var in ds.variables and ds[self.z_var].size == ds[call.stream_id].size:", "                    subset_kwargs[\"zinp\"] = ds[self.z_var].to_numpy()\n                elif self.z_var in ds.variables and ds[self.z_var].size == ds[call.stream_id].size:", ["C05"]),
    ("c05_numpy_context_mask_carried_over", ST, "            subset_indexes = np.ones(np.shape(shape_like), dtype=bool)\n", "            subset_indexes = np.ones(np.shape(shape_like), dtype=bool) if 'subset_indexes' not in locals() else subset_indexes\n", ["C05"]),
    ("c06_numpy_masked_row_mask_regress", ST, "            subset_indexes = np.ones(np.shape(shape_like), dtype=bool)\n", "            subset_indexes = np.full_like(shape_like, 1, dtype=bool)\n", ["C06"]),
    ("c05_netcdf_lat_lon_swapped", ST, "            varkwargs[\"lat\"] = ds.variables[self.lat_var].to_numpy()", "            varkwargs[\"lat\"] = ds.variables[self.lon_var].to_numpy()", ["C05"]),
]
MUTANTS += [
    ("c18_call_run_reraises_typeerror", CF, "        except Exception as e:\n            L.error(f'Could not run \"{self.module}.{self.method}: {e}')", "        except ValueError as e:\n            L.error(f'Could not run \"{self.module}.{self.method}: {e}')", ["C18"]),
    ("c18_failed_call_returns_unknowns", CF, "        except Exception as e:\n            L.error(f'Could not run \"{self.module}.{self.method}: {e}')\n", "        except Exception as e:\n            L.error(f'Could not run \"{self.module}.{self.method}: {e}')\n            results.append(CallResult(package=self.module, test=self.method, function=self.func, results=np.full(np.size(testkwargs.get(\"inp\", [])), 2, dtype=\"uint8\")))\n", ["C18"]),
    ("c18_pandas_absent_stream_breaks", ST, "                    L.warning(\n                        f\"{call.stream_id} not a column in the input dataframe, skipping\",\n                    )\n                    continue", "                    L.warning(\n                        f\"{call.stream_id} not a column in the input dataframe, skipping\",\n                    )\n                    break", ["C18"]),
    ("c18_numpy_absent_stream_breaks", ST, "                        L.warning(\n                            f\"{call.stream_id} not in input dict, skipping\",\n                        )\n                        continue", "                        L.warning(\n                            f\"{call.stream_id} not in input dict, skipping\",\n                        )\n                        break", ["C18"]),
    ("c18_xarray_absent_stream_breaks", ST, "                        f\"{call.stream_id} is not a variable in the xarray dataset, skipping\",\n                    )\n                    continue", "                        f\"{call.stream_id} is not a variable in the xarray dataset, skipping\",\n                    )\n                    break", ["C18"]),
    ("c18_collect_empty_result_clears", RS, "        # CallResults\n        for tr in r.results:", "        # CallResults\n        if not r.results:\n            collected.clear()\n        for tr in r.results:", ["C18"]),
    ("c18_readonly_alias_regress", RS, "                    setattr(collected[cr.hash_key], axis, copied)", "                    setattr(collected[cr.hash_key], axis, values)", ["C18", "C06"]),
    ("c06_copy_drops_mask_regress", RS, "                    copied = values.copy() if np.ma.isMaskedArray(values) else np.array(values)", "                    copied = np.array(values)", ["C06"]),
]
SO = "ioos_qc/stores.py"
MUTANTS += [
    ("c19_cf_safe_no_prefix_for_digit", UT, '        if re.match("^[0-9_]", name):', '        if re.match("^[_]", name):', ["C19"]),
    ("c19_include_and_to_or", SO, "                cr.function not in include\n                and cr.stream_id not in include\n                and cr.test not in include", "                cr.function not in include\n                or cr.stream_id not in include\n                and cr.test not in include", ["C19"]),
    ("c19_exclude_regress", SO, "cr.function in exclude or cr.stream_id in exclude or cr.test in exclude", "cr.function in exclude or cr.stream_id in exclude or cr.test in cr.test in include", ["C19"]),
    ("c19_write_data_ignores_filter", SO, "            # Inclusion list, skip everything not defined\n            if include is not None and (", "            if write_data and cr.stream_id not in df and cr.stream_id:\n                df[cr.stream_id] = cr.data\n            # Inclusion list, skip everything not defined\n            if include is not None and (", ["C19"]),
    ("c19_axes_written_when_false", SO, "                write_axes is True\n                and self.axes[\"z\"] not in df", "                self.axes[\"z\"] not in df", ["C19"]),
    ("c19_aggregate_skips_last", SO, "            results=aggregate(self.collected_results),", "            results=aggregate(self.collected_results[:-1] or self.collected_results),", ["C19"]),
    ("c19_column_name_drops_package", SO, '    package_label = f"{cr.package}." if cr.package else ""', '    package_label = ""', ["C19"]),
    ("c19_results_filled_unknown", SO, "                df[column_name] = cr.results\n", "                df[column_name] = np.ma.filled(cr.results, 2)\n", ["C19"]),
]
FX = "ioos_qc/config_creator/fx_parser.py"
CC = "ioos_qc/config_creator/config_creator.py"
MUTANTS += [
    ("c20_eval_from_bottom", FX, "    val = evaluate_stack(exprStack[:], stats)", "    val = evaluate_stack(exprStack[::-1][:], stats)", ["C20"]),
    ("c20_minus_is_add_in_opn", FX, '    "-": operator.sub,', '    "-": operator.add,', ["C20"]),
    ("c20_operands_swapped", FX, "        op2 = evaluate_stack(s, stats)\n        op1 = evaluate_stack(s, stats)\n        return opn[op](op1, op2)", "        op1 = evaluate_stack(s, stats)\n        op2 = evaluate_stack(s, stats)\n        return opn[op](op1, op2)", ["C20"]),
    ("c20_unary_minus_dropped_when_repeated", FX, "    for t in toks:\n        if t == \"-\":\n            exprStack.append(\"unary -\")\n        elif", "    for t in toks[:1]:\n        if t == \"-\":\n            exprStack.append(\"unary -\")\n        elif", ["C20"]),
    ("c20_minus_after_plus_dropped_regress", FX, "        elif t == \"+\":\n            # a unary plus changes nothing, the signs after it still count\n            continue\n", "        elif t == \"+\":\n            break\n", ["C20"]),
    ("c20_std_is_mean", FX, '    elif op == "std":\n        return stats["std"]', '    elif op == "std":\n        return stats["mean"]', ["C20"]),
    ("c20_validator_prefix_match", CC, "                    token not in self.allowed_stats\n", "                    not any(token.startswith(a) for a in self.allowed_stats)\n", ["C20"]),
    ("c20_validator_accepts_caret", CC, '        "/",\n    ]\n    allowed_groupings', '        "/",\n        "^",\n    ]\n    allowed_groupings', ["C20"]),
    ("c20_subset_lat_exclusive", CC, "        lat_mask = np.logical_and(\n            ds[\"lat\"] >= bbox[1],\n            ds[\"lat\"] <= bbox[3],\n        )\n        lon_mask = np.logical_and(\n            ds[\"lon\"] >= bbox[0],\n            ds[\"lon\"] <= bbox[2],\n        )\n\n        # if there is no data", "        lat_mask = np.logical_and(\n            ds[\"lat\"] >= bbox[1],\n            ds[\"lat\"] < bbox[3],\n        )\n        lon_mask = np.logical_and(\n            ds[\"lon\"] >= bbox[0],\n            ds[\"lon\"] <= bbox[2],\n        )\n\n        # if there is no data", ["C20"]),
    ("c20_span_min_max_swapped", CC, '            "suspect_span": [suspect_min, suspect_max],', '            "suspect_span": [suspect_max, suspect_min],', ["C20"]),
    ("c20_stats_nanstd_ddof1", CC, '            "std": np.nanstd(subset),', '            "std": np.nanstd(subset, ddof=1),', ["C20"]),
    ("c20_depth_level_1", CC, "var = ds[var_in_file][:, depth, lat_mask, lon_mask]", "var = ds[var_in_file][:, depth + 1, lat_mask, lon_mask]", ["C20"]),
    ("c20_sum_zero_regress", CC, "        while np.ndim(subset) == 0:", "        while np.nansum(subset) == 0:", ["C20"]),
    ("c20_eval_uses_stale_tail", FX, "    val = evaluate_stack(exprStack[:], stats)", "    val = evaluate_stack(exprStack[: max(len(exprStack) - (1 if len(exprStack) > 40 else 0), 1)], stats)", ["C20"]),
]

MUTANTS += [
    ("c20_leftover_stack_is_error", FX, "    val = evaluate_stack(exprStack[:], stats)\n", "    s = exprStack[:]\n    val = evaluate_stack(s, stats)\n    if s:\n        raise Exception('unconsumed tokens')\n    del exprStack[:]\n", ["C20"]),
]

# ---- regressions of the repairs made after the round-9 audits (F-18 ... F-26) -----------------------
MUTANTS += [
    ("c13_pressure_raw_dtype_regress", R, "        values = np.ma.masked_invalid(np.ma.array(inp).astype(np.float64))", "        values = np.ma.array(inp)", ["C13"]),
    ("c11_step_truncated_regress", Q, "    time_interval = np.median(np.diff(tinp)) / np.timedelta64(1, \"s\")\n\n    def rolling_window",
     "    time_interval = np.median(np.diff(tinp)).astype(\"timedelta64[s]\").astype(float)\n\n    def rolling_window", ["C11"]),
    ("c12_min_period_step_truncated_regress", Q, "            time_interval = np.median(np.diff(tinp)) / np.timedelta64(1, \"s\") if tinp.size > 1 else np.inf",
     "            time_interval = np.median(np.diff(tinp)).astype(\"timedelta64[s]\").astype(float) if tinp.size > 1 else np.inf", ["C12"]),
    ("c15_guess_state_regress", A, "            inp_as_dates = np.ma.masked_invalid(mapdates(inp))\n            valid_span = np.ma.masked_invalid(mapdates(valid_span))\n            inp = inp_as_dates",
     "            inp = np.ma.masked_invalid(mapdates(inp))\n            valid_span = np.ma.masked_invalid(mapdates(valid_span))", ["C15"]),
    ("c03_span_promoted_whole_regress", A, "    bounds = [np.array(bound, dtype=\"datetime64\") for bound in valid_span]", "    bounds = list(np.array(valid_span, dtype=\"datetime64\"))", ["C03"]),
    ("c20_doy366_regress", CC, "        elif 366 not in x:\n", "        else:\n", ["C20"]),
    ("c05_xarray_label_array_regress", ST, "                        label_indexes[self.time_var] = slice(\n                            tlabels[in_window].min(),\n                            tlabels[in_window].max(),\n                        )",
     "                        label_indexes[self.time_var] = ds[self.time_var].to_numpy()[in_window]", ["C05"]),
]
MUTANTS += [
    ("c03_finer_bound_kept_regress", A, "    if between[0]:\n        start_inclusive = False\n    if between[1]:\n        end_inclusive = True\n", "", ["C03"]),
    ("c01_zero_step_min_period_regress", Q, "            min_periods = int(min_period / time_interval) if time_interval > 0 else None\n", "            min_periods = int(min_period / time_interval)\n", ["C01"]),
]
