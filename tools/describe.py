#!/venv/bin/python
"""Prints the as-built table of sub-checks per property (markdown) from the modules themselves + last evidence."""
import importlib
import json
import os
import sys
HERE = os.path.dirname(os.path.dirname(os.path.abspath(__file__)))
sys.path.insert(0, HERE)
from vf import env  # noqa: E402
env.setup()
print("| property | sub-check (kind) | cases quick / thorough | last quick evidence: evaluations / distinct non-trivial / wall |")
print("|---|---|---|---|")
for i in range(1, 21):
    pid = f"C{i:02d}"
    mod = importlib.import_module(f"vf.props.{pid.lower()}")
    ev = {}
    p = os.path.join(HERE, "evidence", f"{pid}.json")
    if os.path.exists(p):
        ev = json.load(open(p))
    rows = []
    for s in getattr(mod, "SUBS", []):
        kind = "state machine" if s.machine else ("atheris" if s.quick == 0 and s.thorough == 0 else "Hypothesis")
        rows.append(f"`{s.name}` ({kind}) | {s.quick} / {s.thorough}")
    for e in getattr(mod, "ENUMS", []):
        rows.append(f"`{e.name}` (exhaustive: {e.describe[:110]}…) | tiers {'/'.join(e.tiers)}")
    cov = ev.get("coverage", {})
    tail = f"{cov.get('evaluations')} / {cov.get('distinct_nontrivial')} / {ev.get('wall_s')} s ({ev.get('tier')})"
    for k, r in enumerate(rows):
        print(f"| {pid if k == 0 else ''} | {r} | {tail if k == 0 else ''} |")
