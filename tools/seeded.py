#!/venv/bin/python
"""Confirm and evaluate a seeded defect produced by an independent sub-agent.

  tools/seeded.py ingest <dir containing patch.diff, demo.py, meta.json> <name> [--props C05,C06] [--all] [--skip-tests]
  tools/seeded.py rerun <name> [--props ...] [--tier quick|thorough]

ingest: copies the three files to /verif/seeded/<name>/, then in a fresh scratch worktree of /repo (removed afterwards)
  1. checks the patch applies to the current HEAD, 2. runs the repository's stable test-suite with it (must pass),
  3. runs the demonstration with and without the change (must exit 1 / 0), 4. runs the quick check of the target property
  (and of any other requested property) with VERIF_REPO pointing at the patched worktree, and records everything in
  meta.json under "confirmation" and "detection".
"""
import argparse
import json
import os
import shutil
import subprocess
import sys
import tempfile
import time

HERE = os.path.dirname(os.path.dirname(os.path.abspath(__file__)))
ALL = [f"C{i:02d}" for i in range(1, 21)]
DESELECT = "not TestQartodConfigurator and not TestReadXarrayConfig"


def sh(cmd, **kw):
    return subprocess.run(cmd, shell=True, capture_output=True, text=True, **kw)


def run_checks(wt, props, tier, vseed=None):
    out = {}
    for pid in props:
        env = dict(os.environ, VERIF_REPO=wt, VERIF_OUT=os.path.join(wt, "_vfout"))
        if vseed is not None:
            env["VERIF_SEED"] = str(vseed)
        t0 = time.time()
        r = subprocess.run([os.path.join(HERE, "check"), pid, "--tier", tier], env=env, capture_output=True, text=True)
        first = next((l.strip() for l in r.stdout.splitlines() if l.startswith("  sub=")), "")
        out[pid] = {"exit": r.returncode, "seconds": round(time.time() - t0, 1), "first_violation": first[:300]}
        print(f"   {pid}: exit {r.returncode} in {out[pid]['seconds']}s {first[:160]}")
    return out


def with_worktree(fn):
    wt = tempfile.mkdtemp(prefix="seedchk_")
    os.rmdir(wt)
    r = sh(f"git -C /repo worktree add -q --detach {wt} HEAD")
    if r.returncode:
        raise SystemExit(r.stderr)
    try:
        return fn(wt)
    finally:
        sh(f"git -C /repo worktree remove --force {wt}")
        shutil.rmtree(wt, ignore_errors=True)


def ingest(a):
    dst = os.path.join(HERE, "seeded", a.name)
    os.makedirs(dst, exist_ok=True)
    for f in ("patch.diff", "demo.py", "meta.json"):
        shutil.copy(os.path.join(a.src, f), os.path.join(dst, f))
    evaluate(a, dst, confirm=True)


def evaluate(a, dst, confirm):
    meta = json.load(open(os.path.join(dst, "meta.json")))
    target = meta.get("property")
    props = a.props.split(",") if a.props else ([target] if not a.all else ALL)
    if target and target not in props:
        props = [target] + props

    def body(wt):
        res = {}
        if confirm:
            r0 = sh(f"cd {wt} && PYTHONPATH={wt} /venv/bin/python {dst}/demo.py")
            r = sh(f"git -C {wt} apply {dst}/patch.diff")
            res["patch_applies"] = r.returncode == 0
            if r.returncode:
                print("PATCH DOES NOT APPLY", r.stderr)
                return res
            r1 = sh(f"cd {wt} && PYTHONPATH={wt} /venv/bin/python {dst}/demo.py")
            res["demo_exit_without_change"] = r0.returncode
            res["demo_exit_with_change"] = r1.returncode
            print(f"   demo: without={r0.returncode} with={r1.returncode}")
            if not a.skip_tests:
                t = sh(f"cd {wt} && PYTHONPATH={wt} /venv/bin/python -m pytest -q -p no:cacheprovider tests --timeout=900 -k '{DESELECT}' 2>&1 | tail -3")
                res["repo_tests_tail"] = t.stdout.strip().splitlines()[-1] if t.stdout.strip() else ""
                print("   repo tests:", res["repo_tests_tail"])
        else:
            r = sh(f"git -C {wt} apply {dst}/patch.diff")
            if r.returncode:
                # the tree has moved on since the patch was written (later fix: commits): three-way merge on the blobs
                r = sh(f"git -C {wt} apply --3way {dst}/patch.diff")
                res["applied_by_3way_merge"] = r.returncode == 0
            if r.returncode:
                print("PATCH DOES NOT APPLY", r.stderr[-300:])
                res["patch_applies_to_head"] = False
                return res
        if getattr(a, "seeds", None):
            res["by_seed"] = {}
            for vs in a.seeds.split(","):
                r = run_checks(wt, [target], a.tier, vseed=int(vs))
                res["by_seed"][vs] = r[target]["exit"]
            res["checks"] = {}
            return res
        res["checks"] = run_checks(wt, props, a.tier)
        if a.fallback and not any(v["exit"] == 1 for v in res["checks"].values()):
            extra = [p for p in a.fallback.split(",") if p not in props]
            print("   target check(s) missed it; trying", extra)
            res["checks"].update(run_checks(wt, extra, a.tier))
        return res
    res = with_worktree(body)
    if confirm:
        meta["confirmation"] = {k: v for k, v in res.items() if k != "checks"}
        meta["confirmation"]["ran"] = ("fresh worktree of /repo HEAD; git apply patch.diff; demo.py before/after; "
                                       f"pytest tests -k '{DESELECT}'")
    if res.get("by_seed"):
        meta.setdefault("target_check_by_verif_seed", {}).update(res["by_seed"])
        json.dump(meta, open(os.path.join(dst, "meta.json"), "w"), indent=1)
        print("by seed:", meta["target_check_by_verif_seed"])
        return
    det = meta.setdefault("detection", {})
    for pid, r in (res.get("checks") or {}).items():
        det[f"{pid}:{a.tier}"] = r
    meta["caught_by"] = sorted({k.split(":")[0] for k, v in det.items() if v["exit"] == 1})
    json.dump(meta, open(os.path.join(dst, "meta.json"), "w"), indent=1)
    print("caught_by:", meta["caught_by"])


def main():
    ap = argparse.ArgumentParser()
    sub = ap.add_subparsers(dest="cmd", required=True)
    p = sub.add_parser("ingest")
    p.add_argument("src")
    p.add_argument("name")
    p2 = sub.add_parser("rerun")
    p2.add_argument("name")
    for q in (p, p2):
        q.add_argument("--props")
        q.add_argument("--all", action="store_true")
        q.add_argument("--tier", default="quick")
        q.add_argument("--skip-tests", action="store_true")
        q.add_argument("--fallback", help="comma separated property ids to try when the target's check does not catch it")
        q.add_argument("--seeds", help="comma separated VERIF_SEED values: run only the target property's check at each of them")
    a = ap.parse_args()
    if a.cmd == "ingest":
        ingest(a)
    else:
        evaluate(a, os.path.join(HERE, "seeded", a.name), confirm=False)


if __name__ == "__main__":
    main()
