#!/bin/bash
# tools/run_all.sh <tier> [seed]  - runs every registered check sequentially, prints one summary line each
cd "$(dirname "$0")/.."
TIER=${1:-quick}; export VERIF_SEED=${2:-1}
for id in C01 C02 C03 C04 C05 C06 C07 C08 C09 C10 C11 C12 C13 C14 C15 C16 C17 C18 C19 C20; do
  out=$(./check $id --tier $TIER 2>&1); rc=$?
  echo "rc=$rc $(echo "$out" | tail -1)"
  if [ $rc -ne 0 ]; then echo "$out" | grep -E "VIOLATION|sub=|HARNESS" | head -5; fi
done
