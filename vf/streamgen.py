"""Shared generators / builders for the stream layer (C05, C18, C19): data tables, runnable configs, front ends."""
from __future__ import annotations

import datetime as dtm
import inspect

import numpy as np
from hypothesis import strategies as st

from . import gen, model

NAN = float("nan")
Q = 0.125

# ---- probe tests registered on ioos_qc.qartod at import time --------------------------------------
PROBE_LOG = []


def _tolist(a):
    if a is None:
        return None
    try:
        import pandas as pd
        if isinstance(a, (pd.Series, pd.Index)):
            a = a.to_numpy()
    except Exception:
        pass
    if np.ma.isMaskedArray(a):
        # masked elements are missing values whatever lies underneath
        a = a.astype("float64").filled(np.nan) if a.dtype.kind in "fiub" else a.filled(np.datetime64("NaT")) if a.dtype.kind == "M" else a.filled(None)
    a = np.asarray(a)
    if a.dtype.kind == "M":
        return [None if np.isnat(v) else tnorm(int(v.astype("datetime64[ms]").astype("int64")) / 1000) for v in a.ravel()]
    out = []
    for v in a.ravel().tolist():
        out.append(None if (v is None or (isinstance(v, float) and v != v)) else v)
    return out


def tnorm(v):
    """times as int when whole seconds, float (multiple of 1/8 s) otherwise - so that both sides of a comparison agree"""
    return int(v) if float(v) == int(v) else float(v)


def vf_probe_test(inp, tinp=None, zinp=None, lat=None, lon=None, tag=None):
    PROBE_LOG.append({"tag": tag, "inp": _tolist(inp), "tinp": _tolist(tinp), "zinp": _tolist(zinp), "lat": _tolist(lat),
                      "lon": _tolist(lon)})
    return np.ma.ones(np.size(inp), dtype="uint8")


def vf_probe_min(inp, tag=None):
    PROBE_LOG.append({"tag": tag, "inp": _tolist(inp), "min": True})
    return np.ma.ones(np.size(inp), dtype="uint8")


def install_probes():
    from ioos_qc import qartod
    vf_probe_test.__module__ = "ioos_qc.qartod"
    vf_probe_min.__module__ = "ioos_qc.qartod"
    qartod.vf_probe_test = vf_probe_test
    qartod.vf_probe_min = vf_probe_min


# ---- data tables ----------------------------------------------------------------------------------
@st.composite
def table(draw, max_rows=25, stream_names=None, force_axes=None):
    n = draw(st.one_of(st.integers(0, max_rows), st.sampled_from([0, 1, 2, 3])))
    t, _ = draw(gen.time_axis(max(n, 1), steps=[60, 60, 3600, 86400, 7, 900]))
    t = t[:n]
    if draw(st.integers(0, 3)) == 0:
        # sub-second sampling (multiples of 1/8 s); strictly increasing is preserved because every step is >= 7 s
        t = [tnorm(v + draw(st.sampled_from([0.0, 0.125, 0.5, 0.875]))) for v in t]
    elif n >= 2 and draw(st.integers(0, 4)) == 0:
        # repeated time stamps (several depths of one profile share a stamp): still non-decreasing
        for i in range(1, n):
            if draw(st.integers(0, 2)) == 0:
                t[i] = t[i - 1]
        for i in range(1, n):
            t[i] = max(t[i], t[i - 1])
    names = stream_names or draw(st.sampled_from([["temp"], ["temp", "sal"], ["temp", "sal", "o2"]]))
    cols = {}
    for nm in names:
        xs = draw(gen.present_series(n, gen.dyadic(3, -16, 16), gen.dyadic(3, -4, 4)))
        cols[nm] = draw(gen.overlay_missing(xs, markers=st.just(None)))
    axes = {}
    fa = force_axes or {}
    if fa.get("z", draw(st.booleans())):
        axes["z"] = draw(gen.overlay_missing(draw(gen.present_series(n, gen.dyadic(3, 0, 32), gen.dyadic(3, -2, 2))),
                                             markers=st.just(None)))
    if fa.get("latlon", draw(st.booleans())):
        axes["lat"] = [max(-90.0, min(90.0, v)) for v in draw(gen.present_series(n, gen.dyadic(3, -60, 60), gen.dyadic(3, -1, 1)))]
        axes["lon"] = [max(-180.0, min(180.0, v)) for v in draw(gen.present_series(n, gen.dyadic(3, -170, 170), gen.dyadic(3, -1, 1)))]
        if draw(st.booleans()):
            axes["lat"] = draw(gen.overlay_missing(axes["lat"], markers=st.just(None)))
            axes["lon"] = draw(gen.overlay_missing(axes["lon"], markers=st.just(None)))
    has_time = fa.get("time", draw(st.integers(0, 7)) != 0)
    return {"n": n, "t": t if has_time else None, "cols": cols, "axes": axes,
            "index": draw(st.sampled_from(["default", "default", "shifted", "reversed", "datetime", "strings"]))}


def iso(sec):
    if float(sec) != int(sec):
        return (dtm.datetime(1970, 1, 1) + dtm.timedelta(milliseconds=int(round(float(sec) * 1000)))).isoformat()
    return (dtm.datetime(1970, 1, 1) + dtm.timedelta(seconds=int(sec))).isoformat()


@st.composite
def window(draw, t):
    """window dict in epoch seconds: {"starting": s|None, "ending": e|None} or None; cut points on / between rows."""
    kind = draw(st.sampled_from(["absent", "closed", "closed", "closed", "start_only", "end_only", "empty_before",
                                 "empty_after", "empty_equal", "all"]))
    if kind == "absent":
        return None
    if not t:
        base = 1577836800
        return {"starting": base, "ending": base + 10} if kind != "start_only" else {"starting": base, "ending": None}
    pts = sorted(set(t) | {v + 1 for v in t} | {v - 1 for v in t} | {t[0] - 100, t[-1] + 100})
    pt = st.sampled_from(pts)
    if kind == "closed":
        a, b = sorted([draw(pt), draw(pt)])
        if draw(st.booleans()) and len(t) > 1:
            b = draw(st.sampled_from(t))  # a row exactly at `ending`
            a = min(a, b)
        return {"starting": a, "ending": b}
    if kind == "start_only":
        return {"starting": draw(pt), "ending": None}
    if kind == "end_only":
        return {"starting": None, "ending": draw(pt)}
    if kind == "empty_before":
        return {"starting": t[0] - 500, "ending": t[0] - 100}
    if kind == "empty_after":
        return {"starting": t[-1] + 100, "ending": t[-1] + 500}
    if kind == "empty_equal":
        v = draw(pt)
        return {"starting": v, "ending": v}
    return {"starting": t[0] - 100, "ending": t[-1] + 100}


def in_window(tv, w):
    if w is None:
        return True
    s, e = w.get("starting"), w.get("ending")
    return (s is None or tv >= s) and (e is None or tv < e)


def row_mask(tbl, w):
    n = tbl["n"]
    if w is None or tbl["t"] is None:
        return [True] * n
    return [in_window(tv, w) for tv in tbl["t"]]


# ---- runnable test parameter sets (config format) ------------------------------------------------
num = gen.dyadic(3, -16, 16)


@st.composite
def test_entry(draw, tbl, allow=None):
    """-> (module, test, kwargs) runnable on this table."""
    has_t = tbl["t"] is not None
    has_z = "z" in tbl["axes"]
    has_ll = "lat" in tbl["axes"]
    pool = ["gross_range_test", "spike_test", "pressure_increasing_test", "valid_range_test", "vf_probe_test", "vf_probe_min"]
    if has_t:
        pool += ["rate_of_change_test", "flat_line_test", "attenuated_signal_test", "rate_of_change_test", "flat_line_test"]
    if has_z:
        pool += ["density_inversion_test"]
    if has_t and has_z:
        pool += ["climatology_test"]
    if has_ll:
        pool += ["location_test"]
    if has_ll and has_t:
        pool += ["speed_test"]
    if allow:
        pool = [p for p in pool if p in allow] or ["gross_range_test"]
    test = draw(st.sampled_from(pool))
    mod = {"pressure_increasing_test": "argo", "speed_test": "argo", "valid_range_test": "axds"}.get(test, "qartod")
    if test == "gross_range_test":
        a, b = sorted([draw(num), draw(num)])
        kw = {"fail_span": [a, b]}
        if draw(st.booleans()):
            c = draw(st.integers(int(a * 8), int(b * 8))) / 8
            d = draw(st.integers(int(c * 8), int(b * 8))) / 8
            kw["suspect_span"] = [c, d]
    elif test == "spike_test":
        kw = {"suspect_threshold": draw(gen.pos_dyadic(3, 4)), "fail_threshold": draw(gen.pos_dyadic(3, 8)),
              "method": draw(st.sampled_from(["average", "differential"]))}
    elif test == "rate_of_change_test":
        kw = {"threshold": draw(st.sampled_from([1 / 64, 1 / 1024, 1.0, 0.125, 1 / 65536]))}
    elif test == "flat_line_test":
        kw = {"suspect_threshold": draw(st.sampled_from([0, 60, 120, 3600, 7200])), "fail_threshold": draw(st.sampled_from([60, 180, 7200, 86400])),
              "tolerance": draw(st.sampled_from([0, Q, 1.0, 4.0]))}
    elif test == "attenuated_signal_test":
        kw = {"suspect_threshold": draw(gen.pos_dyadic(3, 4)), "fail_threshold": draw(gen.pos_dyadic(3, 2)),
              "check_type": "range"}
        if draw(st.booleans()):
            kw["test_period"] = draw(st.sampled_from([120, 7200, 172800]))
            if draw(st.booleans()):
                kw["min_obs"] = draw(st.integers(1, 3))
    elif test == "climatology_test":
        lo = iso((tbl["t"][0] if tbl["t"] else 0) - draw(st.sampled_from([0, 86400, 10 ** 7])))
        hi = iso((tbl["t"][-1] if tbl["t"] else 0) + draw(st.sampled_from([0, 3600, 10 ** 7])))
        ms = [{"tspan": [lo, hi], "vspan": sorted([draw(num), draw(num)])}]
        if draw(st.booleans()):
            ms[0]["zspan"] = [0, draw(st.sampled_from([8, 16, 100]))]
        if draw(st.booleans()):
            ms.append({"tspan": [1, 12], "period": "month", "vspan": sorted([draw(num), draw(num)]), "fspan": [-20, 20]})
        kw = {"config": ms}
    elif test == "density_inversion_test":
        kw = {"suspect_threshold": draw(st.sampled_from([-Q, 0.0, 1.0])), "fail_threshold": draw(st.sampled_from([-2.0, -1.0]))}
    elif test == "location_test":
        kw = draw(st.sampled_from([None, {"bbox": [-100, -50, 100, 50]}, {"range_max": 100000.0}, {"bbox": [-170, -60, 0, 0], "range_max": 5000.0}]))
    elif test == "speed_test":
        kw = {"suspect_threshold": draw(st.sampled_from([0.5, 5.0, 50.0])), "fail_threshold": draw(st.sampled_from([10.0, 100.0, 1000.0]))}
    elif test == "pressure_increasing_test":
        kw = None
    elif test == "valid_range_test":
        a, b = sorted([draw(num), draw(num)])
        kw = {"valid_span": [a, b]}
        if draw(st.booleans()):
            kw["end_inclusive"] = True
    else:
        kw = {"tag": draw(st.integers(0, 10 ** 6))}
    return [mod, test, kw]


# ---- building the python objects -----------------------------------------------------------------
def np_col(xs):
    return np.array([NAN if v is None else float(v) for v in xs], dtype="float64")


def np_col_masked(xs, junk):
    """the column as a numpy masked array (what netCDF readers hand out): missing members masked, a finite number under
    the mask; a column without missing members is a masked array with nothing masked"""
    a = np_col(xs)
    m = np.isnan(a)
    return np.ma.MaskedArray(np.where(m, float(junk), a), mask=m)


def np_time(t):
    if any(float(v) != int(v) for v in t):
        return np.array([int(round(float(v) * 1000)) for v in t], dtype="int64").astype("datetime64[ms]").astype("datetime64[ns]")
    return np.array(t, dtype="int64").astype("datetime64[s]").astype("datetime64[ns]")


def make_index(tbl):
    import pandas as pd
    n = tbl["n"]
    kind = tbl.get("index", "default")
    if kind == "shifted":
        return pd.RangeIndex(7, 7 + n)
    if kind == "reversed":
        return pd.Index(list(range(n - 1, -1, -1)))
    if kind == "datetime":
        return pd.DatetimeIndex(np_time([86400 * i for i in range(n)]))
    if kind == "strings":
        return pd.Index([f"r{i}" for i in range(n)])
    return None


def make_df(tbl):
    import pandas as pd
    d = {}
    if tbl["t"] is not None:
        d["time"] = np_time(tbl["t"])
    for k, v in tbl["cols"].items():
        d[k] = np_col(v)
    for k, v in tbl["axes"].items():
        d[k] = np_col(v)
    df = pd.DataFrame(d, index=make_index(tbl))
    if tbl["n"] == 0:
        for k in d:
            df[k] = d[k]
    return df


def make_xr(tbl, layout="coord"):
    import xarray as xr
    n = tbl["n"]
    dv = {}
    dim = "time" if (layout in ("coord", "coord_axes", "other_dim") and tbl["t"] is not None) else "obs"
    for k, v in tbl["cols"].items():
        dv[k] = (dim, np_col(v))
    for k, v in tbl["axes"].items():
        dv[k] = (dim, np_col(v))
    coords = {}
    if tbl["t"] is not None:
        if dim == "time":
            coords["time"] = np_time(tbl["t"])
        else:
            dv["time"] = (dim, np_time(tbl["t"]))
    if layout == "other_dim":
        # z / lat / lon are plain variables on another dimension of the same length ("not specifically connected")
        for k in list(tbl["axes"]):
            dv[k] = ("obs", dv[k][1])
    if layout == "coord_axes":
        # z / lat / lon as non-index coordinates along the time dimension (a common CF layout)
        for k in list(tbl["axes"]):
            coords[k] = dv.pop(k)
    return xr.Dataset(dv, coords=coords)


def window_obj(w, style):
    """window as it appears in a config: ISO strings or naive datetimes."""
    if w is None:
        return None
    out = {}
    for k in ("starting", "ending"):
        v = w.get(k)
        if v is None:
            continue
        out[k] = iso(v) if style == "iso" else dtm.datetime(1970, 1, 1) + dtm.timedelta(milliseconds=int(round(float(v) * 1000)))
    return out


def config_obj(contexts, style="iso"):
    """contexts: [{"window": w|None, "streams": {sid: [[mod, test, kw], ...]}}] -> ioos_qc config dict"""
    out = []
    for c in contexts:
        streams = {}
        for sid, entries in c["streams"].items():
            mods = {}
            for mod, test, kw in entries:
                mods.setdefault(mod, {})[test] = kw
            streams[sid] = mods
        ctx = {"streams": streams}
        w = window_obj(c.get("window"), style)
        if w is not None:
            ctx["window"] = w
        out.append(ctx)
    return {"contexts": out}


def columns(tbl):
    """every named column of the table: the tested streams and the axis columns (which a config may test as well)"""
    return {**tbl["axes"], **tbl["cols"]}


def direct_call(tbl, mask, sid, mod, test, kw, inp_masked=None):
    """What the test function returns when called directly on the window rows. Returns (flags list | None if it raised)."""
    import importlib
    fn = getattr(importlib.import_module(f"ioos_qc.{mod}"), test)
    sel = [i for i, m in enumerate(mask) if m]
    passed = {"inp": np_col([columns(tbl)[sid][i] for i in sel])}
    if inp_masked is not None:
        # the direct call gets the observations in the carrier the stream was given
        passed["inp"] = np_col_masked([columns(tbl)[sid][i] for i in sel], inp_masked)
    if tbl["t"] is not None:
        passed["tinp"] = np_time([tbl["t"][i] for i in sel])
    for ax, name in (("z", "zinp"), ("lat", "lat"), ("lon", "lon")):
        if ax in tbl["axes"]:
            passed[name] = np_col([tbl["axes"][ax][i] for i in sel])
    allkw = {**(kw or {}), **passed}
    names = [p.name for p in inspect.signature(fn).parameters.values() if p.kind == p.POSITIONAL_OR_KEYWORD]
    allkw = {k: v for k, v in allkw.items() if k in names}
    try:
        res = fn(**allkw)
    except Exception:
        return None
    data = np.ma.getdata(res)
    m = np.ma.getmaskarray(res)
    from .util import sint
    return [None if mm else sint(d) for d, mm in zip(np.asarray(data).ravel().tolist(), np.asarray(m).ravel().tolist())]
