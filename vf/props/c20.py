"""C20 - generated configs evaluate their limit expressions correctly and statelessly."""
from __future__ import annotations

import atexit
import datetime as dtm
import math
import os
import re
import shutil
import tempfile
import warnings

import numpy as np
from hypothesis import strategies as st

from ..core import SKIP, Sub, Violation

ID = "C20"
RULE = ("A: expressions generated from the grammar (depth <=5) number | min | max | mean | std | e + e | e - e | e * e | e / e | "
        "( e ) | - e with ints, decimals, exponent forms and signed literals, rendered as space-separated tokens (redundant "
        "parentheses, repeated unary minus), statistics dyadic or arbitrary finite floats (python float or numpy float64); "
        "oracle = AST evaluator performing the same IEEE operations in the same association order -> exact equality "
        "(model division by zero: not judged). Histories: rule-based state machine mixing well-formed evaluations (must equal "
        "the history-free model), truncated / unbalanced expressions and unknown identifiers (must raise), statistic switches "
        "and QcVariableConfig validations. B: token strings from numeric literals, statistics, operators, parentheses and "
        "near-misses (max+1, Min, mean^2, sin, 0x10, empty token, unicode minus): accepted iff every token is a decimal "
        "literal, statistic, operator or parenthesis, else ValueError. C: synthetic time-constant monthly climatologies "
        "(netCDF-3, 2-D and 3-D) with NaN cells, bounding boxes on / between grid lines, date ranges of 1..365 days incl. "
        "year crossing and leap years, span / spike / flat-line / rate / location sections: every produced number equals the "
        "expression on nanmin/nanmax/nanmean/nanstd of the in-box cells within 1e-9 relative. non-trivial: A depth>=3 with "
        "both precedence levels and a parenthesis or unary minus, or a history with a failed evaluation before a checked one; "
        "B a near-miss token; C a box that cuts the grid and a range crossing a month boundary")
ASSUMPTIONS = [
    "unary plus, '^', functions and the constants E/PI are not in the stated grammar and are not generated in well-formed expressions",
    "tokens Python's float() accepts but that are not decimal literals (inf, nan, 1_0, infinity) are generated but not judged",
    "a periodic cubic spline through a time-constant field is constant up to rounding (tolerance 1e-9 relative)",
]
STATS = ["min", "max", "mean", "std"]


def fx():
    from ioos_qc.config_creator import fx_parser
    return fx_parser


# ---- expression grammar -------------------------------------------------------------------------
number_tok = st.one_of(
    st.integers(0, 20).map(str),
    st.sampled_from(["0.5", "0.25", "1.5", "2.0", "10.", "3.125", "1e3", "2.5E-2", "1E+2", "7e0", "0", "100"]),
    st.integers(1, 9).map(lambda k: f"-{k}"),
    st.sampled_from(["-0.5", "-2.5e1", "+3", "+0.25"]),
    st.sampled_from([".5", "-.25", ".125e1", "+.5"]),  # a leading decimal point is a number too (float() reads it)
)


@st.composite
def expr(draw, depth):
    if depth <= 0 or draw(st.integers(0, 9)) < 2:
        if draw(st.booleans()):
            return ["num", draw(number_tok)]
        return ["stat", draw(st.sampled_from(STATS))]
    k = draw(st.sampled_from(["bin"] * 6 + ["paren"] * 2 + ["neg"] * 2 + ["pos"]))
    if k == "bin":
        return ["bin", draw(st.sampled_from(["+", "-", "*", "/"])), draw(expr(depth - 1)), draw(expr(depth - 1))]
    return [k, draw(expr(depth - 1))]


PREC = {"+": 1, "-": 1, "*": 2, "/": 2}


def render(e, parent_prec=0, right=False):
    """Tokens of e, inserting exactly the parentheses needed to preserve the tree (explicit 'paren' nodes add more)."""
    k = e[0]
    if k == "num":
        return [e[1]]
    if k == "stat":
        return [e[1]]
    if k == "paren":
        return ["("] + render(e[1]) + [")"]
    if k in ("neg", "pos"):
        inner = e[1]
        toks = render(inner, 3)
        if inner[0] == "bin":
            toks = ["("] + render(inner) + [")"]
        return ["-" if k == "neg" else "+"] + toks
    op, a, b = e[1], e[2], e[3]
    p = PREC[op]
    toks = render(a, p, False) + [op] + render(b, p, True)
    if p < parent_prec or (p == parent_prec and right):
        toks = ["("] + toks + [")"]
    return toks


def evaluate(e, stats):
    k = e[0]
    if k == "num":
        return float(e[1])
    if k == "stat":
        return stats[e[1]]
    if k == "paren":
        return evaluate(e[1], stats)
    if k == "neg":
        return -evaluate(e[1], stats)
    if k == "pos":
        return evaluate(e[1], stats)
    a, b = evaluate(e[2], stats), evaluate(e[3], stats)
    op = e[1]
    if op == "+":
        return a + b
    if op == "-":
        return a - b
    if op == "*":
        return a * b
    if float(b) == 0.0:
        raise ZeroDivisionError
    return a / b


def depth_of(e):
    if e[0] in ("num", "stat"):
        return 0
    return 1 + max(depth_of(x) for x in e[1:] if isinstance(x, list))


def features(e, acc=None):
    acc = acc if acc is not None else set()
    if e[0] == "bin":
        acc.add("add" if e[1] in "+-" else "mul")
    elif e[0] in ("paren", "neg", "pos"):
        acc.add("neg" if e[0] == "pos" else e[0])
        if e[0] == "pos":
            acc.add("unary_plus")
    for x in e[1:]:
        if isinstance(x, list):
            features(x, acc)
    return acc


stat_val = st.one_of(st.integers(-800, 800).map(lambda k: k / 8), st.floats(-1e6, 1e6, allow_nan=False),
                     st.floats(allow_nan=False, allow_infinity=False, width=64), st.sampled_from([0.0, 1.0, -1.0]))


@st.composite
def stats_s(draw):
    d = {k: draw(stat_val) for k in STATS}
    d["_np"] = draw(st.booleans())
    return d


def mk_stats(d):
    return {k: (np.float64(d[k]) if d.get("_np") else float(d[k])) for k in STATS}


@st.composite
def expr_case(draw, tier="quick"):
    return {"ast": draw(expr(5)), "stats": draw(stats_s())}


def same(a, b):
    a, b = float(a), float(b)
    return (a == b) or (math.isnan(a) and math.isnan(b))


def check_expr_value(rec, site, ast, stats_d, **info):
    """evaluates one well-formed expression through eval_fx and compares with the AST evaluator. Returns label list."""
    text = " ".join(render(ast))
    stats = mk_stats(stats_d)
    with np.errstate(all="ignore"):
        try:
            want = evaluate(ast, stats)
        except ZeroDivisionError:
            rec.skip("model_division_by_zero")
            return None
        except OverflowError:
            rec.skip("overflow")
            return None
        try:
            got = fx().eval_fx(text, stats)
        except Exception as e:
            rec.fail(site, f"eval_fx({text!r}) raised {type(e).__name__}: {str(e)[:120]}", expected=want, raised=True,
                     expr=text, **info)
            return text
    if not same(got, want):
        rec.fail(site, f"eval_fx({text!r}) = {got!r}, ordinary arithmetic gives {want!r}", expected=want, got=got, expr=text, **info)
    return text


def check_expr(case, rec):
    ast = case["ast"]
    f = features(ast)
    d = depth_of(ast)
    nt = d >= 3 and "add" in f and "mul" in f and ("paren" in f or "neg" in f)
    rec.note(nt, [f"depth={d}"] + sorted(f) + (["numpy_stats"] if case["stats"].get("_np") else []))
    check_expr_value(rec, "fx_parser.eval_fx", ast, case["stats"])


# ---- histories ---------------------------------------------------------------------------------
BAD_EXPR = ["2 *", "( 1 + 2", "1 + 2 )", "* 3", "mean max", "( )", "", "1 + + * 2", "3 / ( 2 - ", ") 1 (", "1 2"]
BAD_IDENT = ["foo + 1", "median", "2 * minimum", "mean + avg", "stddev / 2", "x"]


def hist_step(rec, state, op):
    k = op["op"]
    if k == "stats":
        state["stats"] = op["stats"]
    elif k == "good":
        state["checked"] += 1
        if state["bad_seen"]:
            state["bad_before_good"] = True
        check_expr_value(rec, "fx_parser.eval_fx(history)", op["ast"], state["stats"], after_failures=state["bad_seen"])
    elif k in ("bad", "ident"):
        state["bad_seen"] += 1
        text = op["text"]
        try:
            v = fx().eval_fx(text, mk_stats(state["stats"]))
        except Exception:
            return
        rec.fail("fx_parser.eval_fx(history)", f"eval_fx({text!r}) returned {v!r} instead of raising", not_rejected=True,
                 expr=text, got=v)
    elif k == "validate":
        from ioos_qc.config_creator import QcVariableConfig
        try:
            QcVariableConfig(var_config({"t": {"suspect_min": op["text"], "suspect_max": "1", "fail_min": "0", "fail_max": "2"}}))
        except Exception:
            pass


def new_state():
    return {"stats": {"min": 1.0, "max": 5.0, "mean": 2.5, "std": 0.5, "_np": False}, "bad_seen": 0, "checked": 0,
            "bad_before_good": False}


def check_history(case, rec):
    state = new_state()
    for op in case["ops"]:
        hist_step(rec, state, op)
    rec.note(state["bad_before_good"], ["failed_eval_before_checked"] if state["bad_before_good"] else [])


def machine(rec, tier):
    from hypothesis.stateful import RuleBasedStateMachine, rule

    class Hist(RuleBasedStateMachine):
        def __init__(self):
            super().__init__()
            self.ops = []
            self.state = new_state()
            rec.begin("fx_history", {"ops": self.ops})

        def do(self, op):
            self.ops.append(op)
            hist_step(rec, self.state, op)

        @rule(ast=expr(4))
        def good(self, ast):
            self.do({"op": "good", "ast": ast})

        @rule(ast=expr(3))
        def good2(self, ast):
            self.do({"op": "good", "ast": ast})

        @rule(text=st.sampled_from(BAD_EXPR))
        def bad(self, text):
            self.do({"op": "bad", "text": text})

        @rule(text=st.sampled_from(BAD_IDENT))
        def ident(self, text):
            self.do({"op": "ident", "text": text})

        @rule(ast=expr(3), cut=st.integers(1, 6))
        def truncated(self, ast, cut):
            toks = render(ast)
            if len(toks) < 3:
                return
            t = toks[:max(1, len(toks) - cut)]
            if t[-1] not in "+-*/(":
                t = t + ["*"]
            self.do({"op": "bad", "text": " ".join(t)})

        @rule(s=stats_s())
        def switch(self, s):
            self.do({"op": "stats", "stats": s})

        @rule(text=st.sampled_from(["mean + 1", "foo", "( max - min ) / 2", "max+1"]))
        def validate(self, text):
            self.do({"op": "validate", "text": text})

        def teardown(self):
            rec.cur_case = {"ops": list(self.ops)}
            rec.cur_sub = "fx_history"
            s = self.state
            rec.note(s["bad_before_good"], ["failed_eval_before_checked"] if s["bad_before_good"] else [])

    return Hist


# ---- B: validator -------------------------------------------------------------------------------
DEC = re.compile(r"^[+-]?(\d+\.?\d*|\.\d+)([eE][+-]?\d+)?$")
GOOD_TOK = ["min", "max", "mean", "std", "+", "-", "*", "/", "(", ")", "1", "2.5", "-3", "1e3", "0.5", "10", "+4", ".5", "7."]
NEAR_MISS = ["max+1", "Min", "MEAN", "mean^2", "sin", "0x10", "", "−2", "^", "%", "median", "std.", "min,", "(max)", "2*3",
             "1e", "e5", "--1", "pi", "E", "abs", "1,5", "$", "maxx", "+-", "*/", "/(", "()", "-*", ")(", "+-*/()", "-(", "**"]
UNJUDGED = ["inf", "nan", "-inf", "Infinity", "1_0", "NaN", " 1", "1_000", "infinity"]


def var_config(tests):
    return {"variable": "air", "bbox": [-10, -10, 10, 10], "start_time": "2020-01-01", "end_time": "2020-01-08", "tests": tests}


@st.composite
def token_case(draw, tier="quick"):
    n = draw(st.integers(1, 8))
    toks = draw(st.lists(st.one_of(st.sampled_from(GOOD_TOK), st.sampled_from(GOOD_TOK), st.sampled_from(NEAR_MISS),
                                   st.sampled_from(UNJUDGED), st.text(alphabet="max+-1.e ^inm", min_size=1, max_size=5).filter(lambda s: " " not in s)),
                         min_size=n, max_size=n))
    if draw(st.booleans()):
        toks = [t for t in toks if t in GOOD_TOK] or ["mean"]
    return {"tokens": toks, "key": draw(st.sampled_from(["suspect_min", "suspect_max", "fail_min", "fail_max"])),
            # further (valid) test sections carrying the same entry names, before and after the one under test
            "before": draw(st.integers(0, 2)), "after": draw(st.integers(0, 2))}


def tok_ok(t):
    return t in STATS or t in ("+", "-", "*", "/", "(", ")") or bool(DEC.match(t))


def check_tokens(case, rec):
    from ioos_qc.config_creator import QcVariableConfig
    toks = case["tokens"]
    text = " ".join(toks)
    real = text.split(" ")
    unj = [t for t in real if not tok_ok(t) and _floatable(t)]
    near = [t for t in real if not tok_ok(t) and not _floatable(t)]
    rec.note(bool(near), (["near_miss"] if near else ["all_tokens_valid"]) + (["unjudged_float_spelling"] if unj else []) +
             (["several_sections"] if case.get("before", 0) + case.get("after", 0) else []))
    spec = {"suspect_min": "1", "suspect_max": "2", "fail_min": "0", "fail_max": "3"}
    spec[case["key"]] = text
    ok = {"suspect_min": "min - 1", "suspect_max": "max + 1", "fail_min": "min - 2 * std", "fail_max": "( max + 2 ) * 1"}
    tests = {}
    for i in range(case.get("before", 0)):
        tests[f"other_test_{i}"] = dict(ok)
    tests["gross_range_test"] = spec
    for i in range(case.get("after", 0)):
        tests[f"later_test_{i}"] = dict(ok)
    cfg = var_config(tests)
    site = "QcVariableConfig"
    if near:
        rec.expect_raises(site, (ValueError,), QcVariableConfig, cfg)
    elif unj:
        rec.skip("float_spelling_not_a_decimal_literal")
    else:
        r = rec.call(site, QcVariableConfig, cfg)
        if r is not SKIP and r["tests"]["gross_range_test"][case["key"]] != text:
            rec.fail(site, "accepted configuration does not carry the specification unchanged", expected=text,
                     got=r["tests"]["gross_range_test"][case["key"]])


def _floatable(t):
    try:
        float(t)
        return True
    except ValueError:
        return False


# ---- C: creator ----------------------------------------------------------------------------------
_TMP = None


def tmpdir():
    global _TMP
    if _TMP is None or not os.path.isdir(_TMP):
        _TMP = tempfile.mkdtemp(prefix="vf_c20_")
        atexit.register(shutil.rmtree, _TMP, ignore_errors=True)
    return _TMP


@st.composite
def creator_case(draw, tier="quick"):
    nlat, nlon = draw(st.integers(3, 8)), draw(st.integers(3, 8))
    lat0, lon0 = draw(st.integers(-60, 40)), draw(st.integers(-150, 100))
    dlat, dlon = draw(st.sampled_from([1, 2, 5])), draw(st.sampled_from([1, 2, 5]))
    edge = draw(st.sampled_from(["", "", "", "east", "west", "north"]))
    if edge == "east":
        lon0 = 180 - (nlon - 1) * dlon  # the grid ends on the antimeridian
    elif edge == "west":
        lon0 = -180
    elif edge == "north":
        lat0 = 90 - (nlat - 1) * dlat
    lats = [float(lat0 + i * dlat) for i in range(nlat)]
    lons = [float(lon0 + j * dlon) for j in range(nlon)]
    field = [[draw(st.one_of(st.integers(-80, 240).map(lambda k: k / 8), st.integers(-80, 240).map(lambda k: k / 8), st.none()))
              for _ in range(nlon)] for _ in range(nlat)]
    three_d = draw(st.booleans())
    if draw(st.integers(0, 3)) == 0:
        lats = lats[::-1]  # north-to-south latitude axis, as many gridded products have
    if draw(st.integers(0, 5)) == 0:
        lons = lons[::-1]
    # box with edges on or between grid lines that contains >=1 valid cell
    i0, i1 = sorted([draw(st.integers(0, nlat - 1)), draw(st.integers(0, nlat - 1))])
    j0, j1 = sorted([draw(st.integers(0, nlon - 1)), draw(st.integers(0, nlon - 1))])
    off = st.sampled_from([0.0, 0.0, 0.25, 0.5])
    bbox = [min(lons[j0], lons[j1]) - draw(off), min(lats[i0], lats[i1]) - draw(off), max(lons[j0], lons[j1]) + draw(off),
            max(lats[i0], lats[i1]) + draw(off)]
    start = dtm.date(draw(st.sampled_from([2019, 2020, 2021])), draw(st.integers(1, 12)), draw(st.integers(1, 28)))
    ndays = draw(st.one_of(st.integers(1, 365), st.sampled_from([1, 1, 2, 7, 28, 31, 364, 365, 90])))
    if draw(st.integers(0, 5)) == 0:
        i1, j1 = i0, j0  # a box holding a single grid cell
        if draw(st.booleans()):
            ndays = 1  # ... for a single day: the smallest subset there is
        bbox = [lons[j0] - draw(off), lats[i0] - draw(off), lons[j0] + draw(off), lats[i0] + draw(off)]
        bbox = [min(bbox[0], bbox[2]), min(bbox[1], bbox[3]), max(bbox[0], bbox[2]), max(bbox[1], bbox[3])]
    if draw(st.integers(0, 9)) == 0:
        bbox = [-180.0, -90.0, 180.0, 90.0]  # "everywhere"
    elif edge and draw(st.booleans()):
        # the box reaches the edge of the coordinate range
        if edge == "east":
            bbox[2] = 180.0
        elif edge == "west":
            bbox[0] = -180.0
        else:
            bbox[3] = 90.0
    end = start + dtm.timedelta(days=ndays)
    year = draw(st.sampled_from([2000, 2018, 1999]))
    mid_month = draw(st.booleans())
    tests = {}
    kinds = draw(st.lists(st.sampled_from(["gross_range_test", "spike_test", "flat_line_test", "rate_of_change_test",
                                           "location_test", "climatology_like"]), min_size=1, max_size=4, unique=True))
    ex = expr(3)
    if draw(st.booleans()):
        # plain statistics, so that a wrong subset is visible whatever the other expressions look like
        tests["gross_range_plain"] = {"suspect_min": ["stat", "min"], "suspect_max": ["stat", "max"],
                                      "fail_min": ["bin", "-", ["stat", "mean"], ["stat", "std"]],
                                      "fail_max": ["bin", "+", ["stat", "mean"], ["bin", "*", ["num", "2"], ["stat", "std"]]]}
    if draw(st.integers(0, 5)) == 0:
        # in-box values that sum to exactly zero
        ii, jj = i0, j0
        field[ii][jj] = 2.0
        if j1 > j0:
            field[ii][j0 + 1] = -2.0
            for j in range(j0 + 2, j1 + 1):
                field[ii][j] = 0.0
        else:
            field[ii][jj] = 0.0
        for i in range(i0 + 1, i1 + 1):
            for j in range(j0, j1 + 1):
                field[i][j] = 0.0
    for k in kinds:
        if k in ("gross_range_test", "climatology_like"):
            tests[k] = {x: draw(ex) for x in ("suspect_min", "suspect_max", "fail_min", "fail_max")}
        elif k == "spike_test":
            tests[k] = {x: draw(ex) for x in ("suspect_threshold", "fail_threshold")}
        elif k == "flat_line_test":
            tests[k] = {x: draw(ex) for x in ("suspect_threshold", "fail_threshold", "tolerance")}
        elif k == "rate_of_change_test":
            tests[k] = {"threshold": draw(ex)}
        else:
            tests[k] = {"bbox": [-80, 40, -70, 60]}
    return {"stamps": draw(st.sampled_from(["monthly", "monthly", "monthly", "daily", "year_ends"])),
            "lats": lats, "lons": lons, "field": field, "three_d": three_d, "bbox": bbox, "start": start.isoformat(),
            "end": end.isoformat(), "ndays": ndays, "year": year, "mid_month": mid_month, "tests": tests}


def write_clim(case):
    import xarray as xr
    lats, lons = np.array(case["lats"]), np.array(case["lons"])
    f = np.array([[np.nan if v is None else v for v in row] for row in case["field"]], dtype="float64")
    day = 15 if case["mid_month"] else 1
    times = np.array([np.datetime64(f"{case['year']}-{m:02d}-{day:02d}") for m in range(1, 13)], dtype="datetime64[ns]")
    stamps = case.get("stamps", "monthly")
    if stamps == "daily":
        # a daily climatology (of a leap year when year == 2000: day of year 1 .. 366)
        times = np.arange(np.datetime64(f"{case['year']}-01-01"), np.datetime64(f"{case['year'] + 1}-01-01")).astype("datetime64[ns]")
    elif stamps == "year_ends":
        times = np.array([f"{case['year']}-01-01", f"{case['year']}-07-01", f"{case['year']}-12-31"], dtype="datetime64[ns]")
    nt = len(times)
    if case["three_d"]:
        data = np.broadcast_to(f, (nt, 2) + f.shape).copy()
        data[:, 1] = data[:, 1] + 1000.0  # a second level that must not be used (depth index 0 is)
        ds = xr.Dataset({"v": (("time", "depth", "lat", "lon"), data)},
                        coords={"time": times, "depth": [0.0, 10.0], "lat": lats, "lon": lons})
    else:
        data = np.broadcast_to(f, (nt,) + f.shape).copy()
        ds = xr.Dataset({"v": (("time", "lat", "lon"), data)}, coords={"time": times, "lat": lats, "lon": lons})
    p = os.path.join(tmpdir(), f"clim_{os.getpid()}.nc")
    if os.path.exists(p):
        os.unlink(p)
    ds.to_netcdf(p, engine="scipy")
    return p


def inbox(case):
    vals = []
    b = case["bbox"]
    for i, la in enumerate(case["lats"]):
        for j, lo in enumerate(case["lons"]):
            if b[1] <= la <= b[3] and b[0] <= lo <= b[2] and case["field"][i][j] is not None:
                vals.append(case["field"][i][j])
    return vals


def check_creator(case, rec):
    from ioos_qc.config_creator import CreatorConfig, QcConfigCreator, QcVariableConfig
    vals = inbox(case)
    ncell = len(case["lats"]) * len(case["lons"])
    nin = sum(1 for la in case["lats"] for lo in case["lons"] if case["bbox"][1] <= la <= case["bbox"][3] and case["bbox"][0] <= lo <= case["bbox"][2])
    s, e = dtm.date.fromisoformat(case["start"]), dtm.date.fromisoformat(case["end"])
    crosses_year = e.year != s.year
    crosses_month = (e.year, e.month) != (s.year, s.month)
    same_doy = s.timetuple().tm_yday == e.timetuple().tm_yday
    sum_zero = bool(vals) and float(np.sum(vals)) == 0.0
    labels = [lab for lab, on in (("box_cuts_grid", nin < ncell), ("crosses_year", crosses_year), ("crosses_month", crosses_month),
                                  ("three_d", case["three_d"]), ("nan_cells_in_box", len(vals) < nin), ("no_valid_cell", not vals),
                                  ("inbox_sum_zero", sum_zero), ("same_day_of_year", same_doy),
                                  ("leap_day_in_range", any((s + dtm.timedelta(days=k)).timetuple().tm_yday == 366 for k in range(case["ndays"])))) if on]
    labels.append(f"time_axis={case.get('stamps', 'monthly')}" + ("_leap" if case.get("stamps") in ("daily", "year_ends") and case["year"] == 2000 else ""))
    rec.note(bool(vals) and nin < ncell and crosses_month, labels)
    if not vals:
        rec.skip("no_valid_cell_in_box")
        return
    pre = {"min": float(np.min(vals)), "max": float(np.max(vals)), "mean": float(np.mean(vals)), "std": float(np.std(vals))}
    for k, spec in case["tests"].items():
        if k == "location_test":
            continue
        for a in spec.values():
            try:
                with np.errstate(all="ignore"):
                    evaluate(a, pre)
            except (ZeroDivisionError, OverflowError):
                rec.skip("model_division_by_zero")  # the expression has no ordinary arithmetic value here
                return
    path = write_clim(case)
    dsconf = {"name": "clim", "file_path": path, "variables": {"air": "v"}}
    if case["three_d"]:
        dsconf["3d"] = "depth"
    tests_txt = {k: ({x: " ".join(render(a)) for x, a in v.items()} if k != "location_test" else v) for k, v in case["tests"].items()}
    info = {"inbox_sum_zero": sum_zero, "same_doy": same_doy, "ndays": case["ndays"]}
    site = "QcConfigCreator.create_config"
    with warnings.catch_warnings():
        warnings.simplefilter("ignore")
        try:
            creator = QcConfigCreator(CreatorConfig({"datasets": [dsconf]}))
            vc = QcVariableConfig({"variable": "air", "bbox": case["bbox"], "start_time": case["start"], "end_time": case["end"],
                                   "tests": tests_txt})
            out = creator.create_config(vc)
        except Exception as ex:
            rec.fail(site, f"raised {type(ex).__name__}: {str(ex)[:200]}", raised=True, exc=type(ex).__name__, **info)
            return
    stats = {"min": float(np.min(vals)), "max": float(np.max(vals)), "mean": float(np.mean(vals)), "std": float(np.std(vals))}
    got_tests = out.get("air", {}).get("qartod", {})
    for k, spec in case["tests"].items():
        if k not in got_tests:
            rec.fail(site, f"section {k} missing from the created config", got=list(got_tests), **info)
            continue
        sec = got_tests[k]
        if k == "location_test":
            if sec.get("bbox") != spec["bbox"]:
                rec.fail(site, "location bbox not carried over", expected=spec["bbox"], got=sec.get("bbox"), **info)
            continue
        pairs = []
        if k in ("gross_range_test", "climatology_like", "gross_range_plain"):
            pairs = [("suspect_min", ("suspect_span", 0)), ("suspect_max", ("suspect_span", 1)), ("fail_min", ("fail_span", 0)),
                     ("fail_max", ("fail_span", 1))]
        else:
            pairs = [(x, (x, None)) for x in spec]
        for src_key, (dst_key, idx) in pairs:
            with np.errstate(all="ignore"):
                try:
                    want = evaluate(spec[src_key], stats)
                except (ZeroDivisionError, OverflowError):
                    rec.skip("model_division_by_zero")
                    continue
            if dst_key not in sec:
                rec.fail(site, f"{k}.{dst_key} missing", got=list(sec), **info)
                continue
            got = sec[dst_key] if idx is None else sec[dst_key][idx]
            got = float(got)
            tol = 1e-9 * max(1.0, abs(want), *(abs(v) for v in stats.values())) * 50
            if not (abs(got - want) <= tol or (math.isnan(got) and math.isnan(want)) or got == want):
                # division amplifies the spline's rounding noise: compare via a perturbation bound
                if _ill_conditioned(spec[src_key], stats):
                    rec.skip("ill_conditioned_expression")
                    continue
                rec.fail(site, f"{k}.{src_key} = {got!r}; expression {' '.join(render(spec[src_key]))!r} on the in-box cell statistics gives {want!r}",
                         expected=want, got=got, stats=stats, key=f"{k}.{src_key}", **info)


def _ill_conditioned(ast, stats):
    """True if a 1e-9 relative perturbation of the statistics moves the value by more than the tolerance (e.g. division by a
    difference that is nearly zero)."""
    base = None
    with np.errstate(all="ignore"):
        try:
            base = evaluate(ast, stats)
            worst = 0.0
            for k in STATS:
                for sgn in (1, -1):
                    s2 = dict(stats)
                    s2[k] = stats[k] + sgn * max(abs(stats[k]), 1.0) * 1e-9
                    worst = max(worst, abs(evaluate(ast, s2) - base))
        except (ZeroDivisionError, OverflowError):
            return True
    tol = 1e-9 * max(1.0, abs(base), *(abs(v) for v in stats.values())) * 50
    return not (worst <= tol / 2)



# ---- token-level oracle shared with the atheris target (vf/fuzz_c20.py) -------------------------------
class BadTokens(Exception):
    pass


def parse_tokens(tokens):
    """Independent recursive-descent parser of the stated grammar over space-separated tokens -> AST, or BadTokens."""
    pos = [0]

    def peek():
        return tokens[pos[0]] if pos[0] < len(tokens) else None

    def eat():
        pos[0] += 1
        return tokens[pos[0] - 1]

    def atom():
        t = peek()
        if t is None:
            raise BadTokens
        if t == "(":
            eat()
            e = expr_()
            if peek() != ")":
                raise BadTokens
            eat()
            return ["paren", e]
        if t in STATS:
            eat()
            return ["stat", t]
        if DEC.match(t) and t[0] not in "+" and not t.rstrip("0123456789").endswith(("e", "E")):
            eat()
            return ["num", t]
        raise BadTokens

    def factor():
        if peek() == "-":
            eat()
            return ["neg", factor()]
        if peek() == "+":
            eat()
            return ["pos", factor()]
        return atom()

    def term():
        e = factor()
        while peek() in ("*", "/"):
            op = eat()
            e = ["bin", op, e, factor()]
        return e

    def expr_():
        e = term()
        while peek() in ("+", "-"):
            op = eat()
            e = ["bin", op, e, term()]
        return e
    e = expr_()
    if pos[0] != len(tokens):
        raise BadTokens
    return e


def check_fuzz_tokens(case, rec):
    """Replay of a finding of the atheris campaign: the same two oracles, in process."""
    from ioos_qc.config_creator import QcVariableConfig
    del fx().exprStack[:]
    real = " ".join(case["tokens"]).split(" ")
    text = " ".join(real)
    stats = {k: float(v) for k, v in case["stats"].items()}
    near = [t for t in real if not tok_ok(t) and not _floatable(t)]
    unj = [t for t in real if not tok_ok(t) and _floatable(t)]
    rec.note(True, ["fuzz_replay"])
    cfg = var_config({"gross_range_test": {"suspect_min": text, "suspect_max": "1", "fail_min": "0", "fail_max": "2"}})
    if near:
        rec.expect_raises("QcVariableConfig", (ValueError,), QcVariableConfig, cfg)
    elif not unj:
        rec.call("QcVariableConfig", QcVariableConfig, cfg)
    try:
        ast = parse_tokens(real)
    except (BadTokens, RecursionError):
        return
    check_expr_value(rec, "fx_parser.eval_fx", ast, {**stats, "_np": False})


def EXTRA(tier, seed, jobs, rec):
    """Coverage-guided campaign (atheris / libFuzzer) in the thorough tier: 16 independent fuzzers, half from an empty
    corpus and half from a few valid inputs. Returns a list of violation dicts."""
    import json
    import subprocess
    import sys
    from .. import env
    if tier != "thorough":
        return []
    if not env.ensure_atheris():
        rec.by_class["fuzz_tokens:atheris_unavailable"] += 1
        return []
    base = tempfile.mkdtemp(prefix="vf_c20_fuzz_")
    runs = int(os.environ.get("VERIF_FUZZ_RUNS", "12000"))
    procs = []
    try:
        for k in range(min(16, jobs)):
            out = os.path.join(base, f"f{k}")
            cmd = [sys.executable, "-m", "vf.fuzz_c20", out, str(runs), str(seed * 100 + k + 1), "seeded" if k % 2 else "empty"]
            procs.append((out, subprocess.Popen(cmd, cwd=env.VERIF, stdout=subprocess.DEVNULL, stderr=subprocess.DEVNULL)))
        viols = []
        for out, p in procs:
            try:
                p.wait(timeout=1500)
            except subprocess.TimeoutExpired:
                p.kill()
                rec.budget_exhausted = True
            sp = os.path.join(out, "summary.json")
            if os.path.exists(sp):
                c = json.load(open(sp))
                rec.evaluations += c.get("execs", 0)
                rec.per_sub["fuzz_tokens"] += c.get("execs", 0)
                for key in ("wellformed", "near_miss", "accepted", "rejected"):
                    rec.by_class[f"fuzz_tokens:{key}"] += c.get(key, 0)
            fp = os.path.join(out, "finding.json")
            if os.path.exists(fp):
                f = json.load(open(fp))
                viols.append({"sub": "fuzz_tokens", "site": "fuzz:" + f["kind"], "msg": f"atheris found {f['kind']}",
                              "case": {"tokens": f["tokens"], "stats": f["stats"]}, "expected": f["expected"], "got": f["got"],
                              "info": {}, "seed": seed})
        return viols
    finally:
        shutil.rmtree(base, ignore_errors=True)


SUBS = [
    Sub("expr", expr_case, check_expr, quick=5000, thorough=100000),
    Sub("fx_history", None, check_history, quick=300, thorough=6000, machine=machine, steps=25),
    Sub("validator", token_case, check_tokens, quick=2500, thorough=40000),
    Sub("creator", creator_case, check_creator, quick=600, thorough=3000),
    Sub("fuzz_tokens", None, check_fuzz_tokens, quick=0, thorough=0),  # driven by EXTRA (atheris); listed for replay
]
REQUIRED_CLASSES = ["expr:neg", "expr:paren", "expr:numpy_stats", "fx_history:failed_eval_before_checked", "validator:near_miss",
                    "validator:all_tokens_valid", "creator:box_cuts_grid", "creator:crosses_year", "creator:three_d",
                    "creator:nan_cells_in_box"]
