"""C05 - running a config through any stream equals calling each test on its window rows."""
from __future__ import annotations

import warnings

import numpy as np
from hypothesis import strategies as st

from .. import streamgen as sg
from ..util import sint
from ..core import SKIP, Sub, canon, jsonable

ID = "C05"
RULE = ("data tables of 0..25 rows on strictly increasing whole-second axes, 1..3 stream columns with missing values, z / "
        "lat+lon / time columns each present or absent, row index default / shifted / reversed / datetime / strings; configs "
        "of 1..3 contexts whose windows are absent, closed, start-only, end-only, empty (before, after, start==end) or "
        "all-covering with cut points taken from the row timestamps themselves (a row exactly on `starting` / `ending`) or "
        "one second beside them, written as ISO strings or naive datetimes; per context 1..3 streams x 1..3 runnable tests "
        "(gross_range, spike, rate_of_change, flat_line, attenuated, climatology, density_inversion, location, speed, "
        "pressure_increasing, valid_range) plus two probe tests registered at run time that record the arrays they are "
        "handed. front ends: PandasStream, NumpyStream(dict), NumpyStream(array), XarrayStream (time as dimension "
        "coordinate / as data variable / from a netCDF-3 file path), NetcdfStream(Dataset / file path), QcConfig.run. oracle: the multiset of (stream, test, row "
        "mask, flags) where row mask = {starting <= t < ending} and flags = the test function called directly on those "
        "rows; probes must have received exactly the restricted inp/tinp/zinp/lat/lon. non-trivial: a window excludes >=1 "
        "row and the context holds a neighbour- or time-dependent test, or a row lies exactly on `ending`, or the index is "
        "non-default, or an axis column is absent")
ASSUMPTIONS = [
    "windows are naive (no trailing Z); regions are not generated (documented no-op)",
    "only tests whose required inputs the table supplies are configured here (C18 covers the others)",
    "the direct calls use float64 / datetime64[ns] arrays; carrier independence is C15's subject",
]
FRONTENDS = ["pandas", "numpy_dict", "numpy_array", "xarray_coord", "xarray_var", "netcdf", "qcconfig", "netcdf_path",
             "xarray_path", "xarray_coord_axes", "xarray_other_dim"]
# front ends exercised when the config tests an axis column (z / lat / lon) as a stream of its own
AXIS_STREAM_FRONTENDS = ["pandas", "pandas", "numpy_dict", "xarray_coord", "netcdf", "netcdf_path", "xarray_path", "xarray_coord_axes"]
NEIGHBOUR = {"spike_test", "rate_of_change_test", "flat_line_test", "attenuated_signal_test", "density_inversion_test",
             "speed_test", "pressure_increasing_test", "location_test"}

sg_installed = False


def ensure():
    global sg_installed
    if not sg_installed:
        sg.install_probes()
        sg_installed = True


@st.composite
def stream_case(draw, tier="quick"):
    tbl = draw(sg.table())
    sids = list(tbl["cols"])
    axis_streams = bool(tbl["axes"]) and draw(st.integers(0, 3)) == 0
    if axis_streams:
        # the depth / latitude / longitude columns are themselves quality controlled (e.g. pressure_increasing on z)
        sids = sids + list(tbl["axes"])
    nctx = draw(st.sampled_from([1, 1, 2, 3]))
    ctxs = []
    for _ in range(nctx):
        streams = {}
        for sid in draw(st.lists(st.sampled_from(sids + ["ghost"]), min_size=1, max_size=3, unique=True)):
            entries = draw(st.lists(sg.test_entry(tbl), min_size=1, max_size=3, unique_by=lambda e: (e[0], e[1])))
            streams[sid] = entries
        ctxs.append({"window": draw(sg.window(tbl["t"])) if tbl["t"] is not None or draw(st.booleans()) else None,
                     "streams": streams})
    if nctx == 3 and draw(st.integers(0, 3)) == 0:
        ctxs[2]["window"] = ctxs[0]["window"]  # the same context again, not adjacent in the list
    fes = draw(st.lists(st.sampled_from(FRONTENDS), min_size=2, max_size=4, unique=True))
    if axis_streams:
        fes = draw(st.lists(st.sampled_from(AXIS_STREAM_FRONTENDS), min_size=2, max_size=4, unique=True))
    extra = {}
    if not axis_streams and draw(st.integers(0, 3)) == 0:
        pool = {"time": ["t_utc", "obs_time"], "z": ["depth", "pressure"], "lat": ["latitude", "y"], "lon": ["longitude", "x"]}
        extra["names"] = {k: draw(st.sampled_from(v)) for k, v in pool.items() if draw(st.integers(0, 3)) != 0}
    if draw(st.integers(0, 3)) == 0:
        extra["inp_masked"] = draw(st.sampled_from([0.0, -999.0, 12.125]))
    if any(v is None for ax in tbl["axes"].values() for v in ax) and draw(st.booleans()):
        extra["axes_masked"] = draw(st.sampled_from([0.0, 5.0, -9999.0]))
    return {**extra, "table": tbl, "contexts": ctxs, "style": draw(st.sampled_from(["iso", "datetime"])), "frontends": fes,
            "qc_tinp": draw(st.sampled_from(["ndarray", "ndarray", "list_datetime", "list_timestamp", "series", "dtindex"]))}


def xarray_known_mask(tbl, w, layout, deviations):
    """Row mask XarrayStream is *known* to use instead of starting <= t < ending (open finding K-2); the set `deviations`
    collects whether it actually changes the mask for this window."""
    right = sg.row_mask(tbl, w)
    if w is None or tbl["t"] is None:
        return right
    if layout == "var":
        mask = [True] * tbl["n"]  # K-2: time is not a coordinate of the variable: window ignored
        if mask != right:
            deviations.add("K-2")
        return mask
    return right


def expected(case, single_col=None, xarray_layout=None, deviations=None, inp_masked=None):
    """multiset of expected ContextResults + expected probe receipts."""
    tbl = case["table"]
    out, probes = [], []
    for c in case["contexts"]:
        mask = sg.row_mask(tbl, c.get("window"))
        if xarray_layout is not None:
            mask = xarray_known_mask(tbl, c.get("window"), xarray_layout, deviations)
        for sid, entries in c["streams"].items():
            col = single_col or sid
            if col not in sg.columns(tbl):
                continue
            for mod, test, kw in entries:
                tb = tbl if single_col is None else {**tbl, "cols": {sid: tbl["cols"][single_col]}}
                fl = sg.direct_call(tb, mask, sid, mod, test, kw, inp_masked)
                sel_ = [i for i, m in enumerate(mask) if m]
                out.append({"stream": sid, "test": f"{mod}.{test}" if fl is not None else None, "mask": mask, "flags": fl,
                            # the arrays the ContextResult itself carries: source restricted to the window rows, or
                            # zero-length when the table has no such axis
                            "data": [sg.columns(tb)[sid][i] for i in sel_],
                            "tinp": [sg.tnorm(tbl["t"][i]) for i in sel_] if tbl["t"] is not None else [],
                            "zinp": [tbl["axes"]["z"][i] for i in sel_] if "z" in tbl["axes"] else [],
                            "lat": [tbl["axes"]["lat"][i] for i in sel_] if "lat" in tbl["axes"] else [],
                            "lon": [tbl["axes"]["lon"][i] for i in sel_] if "lon" in tbl["axes"] else []})
                if test.startswith("vf_probe"):
                    sel = [i for i, m in enumerate(mask) if m]
                    rcp = {"tag": (kw or {}).get("tag"), "inp": [sg.columns(tb)[sid][i] for i in sel]}
                    if test == "vf_probe_min":
                        rcp["min"] = True
                    else:
                        rcp["tinp"] = [sg.tnorm(tbl["t"][i]) for i in sel] if tbl["t"] is not None else None
                        rcp["zinp"] = [tbl["axes"]["z"][i] for i in sel] if "z" in tbl["axes"] else None
                        rcp["lat"] = [tbl["axes"]["lat"][i] for i in sel] if "lat" in tbl["axes"] else None
                        rcp["lon"] = [tbl["axes"]["lon"][i] for i in sel] if "lon" in tbl["axes"] else None
                    probes.append(rcp)
    return out, probes


def observe(results):
    out = []
    for r in results:
        res = list(r.results)
        mask = np.asarray(r.subset_indexes).astype(bool).ravel().tolist()
        fields = {k: (sg._tolist(getattr(r, k)) or []) for k in ("data", "tinp", "zinp", "lat", "lon")}
        if res:
            cr = res[0]
            fl = [None if m else sint(d) for d, m in zip(np.asarray(np.ma.getdata(cr.results)).ravel().tolist(),
                                                        np.asarray(np.ma.getmaskarray(cr.results)).ravel().tolist())]
            out.append({"stream": r.stream_id, "test": f"{cr.package}.{cr.test}", "mask": mask, "flags": fl, **fields})
        else:
            out.append({"stream": r.stream_id, "test": None, "mask": mask, "flags": None, **fields})
    return out


def ms(items):
    return sorted(canon(i) for i in items)


def run_frontend(fe, case):
    """-> (list of observed ContextResult summaries, single_col or None) ; raises whatever ioos_qc raises."""
    from ioos_qc.config import Config, QcConfig
    from ioos_qc.streams import NetcdfStream, NumpyStream, PandasStream, XarrayStream
    tbl = case["table"]
    cfg = sg.config_obj(case["contexts"], case["style"])
    axes = {}
    if "z" in tbl["axes"]:
        axes["z"] = sg.np_col(tbl["axes"]["z"])
    if "lat" in tbl["axes"]:
        axes["lat"] = sg.np_col(tbl["axes"]["lat"])
        axes["lon"] = sg.np_col(tbl["axes"]["lon"])
    if case.get("axes_masked") is not None:
        # depth / position handed over as masked arrays (what netCDF readers return), a finite number under each mask
        for k in list(axes):
            m = np.isnan(axes[k])
            axes[k] = np.ma.MaskedArray(np.where(m, float(case["axes_masked"]), axes[k]), mask=m)
    tarr = sg.np_time(tbl["t"]) if tbl["t"] is not None else None
    # the time / depth / position columns under names of the user's choosing, handed to the stream's constructor; columns
    # that carry the *default* names are then ordinary (here: misleading) columns
    names = case.get("names") or {}
    nkw = {k: names[k] for k in ("time", "z", "lat", "lon") if k in names}

    def renamed_df(df):
        if not names:
            return df
        df = df.rename(columns=names)
        for k in names:
            df[k] = 999.0 if k != "time" else np.arange(len(df))[::-1]
        return df

    def renamed_ds(ds):
        if not names:
            return ds
        ds = ds.rename({k: v for k, v in names.items() if k in ds.variables or k in ds.dims})
        dim = next(iter(ds[next(iter(tbl["cols"]))].dims))
        for k in names:
            ds[k] = (dim, np.full(tbl["n"], 999.0) if k != "time" else np.arange(tbl["n"], dtype="float64")[::-1])
        return ds
    with warnings.catch_warnings():
        warnings.simplefilter("ignore")
        if fe == "pandas":
            return observe(list(PandasStream(renamed_df(sg.make_df(tbl)), **nkw).run(Config(cfg)))), None
        if fe == "numpy_dict":
            tested = {sid for c in case["contexts"] for sid in c["streams"]}
            col = (lambda v: sg.np_col_masked(v, case["inp_masked"])) if case.get("inp_masked") is not None else sg.np_col
            inp = {k: col(v) for k, v in sg.columns(tbl).items() if k in tbl["cols"] or k in tested}
            return observe(list(NumpyStream(inp=inp, time=tarr, **axes).run(Config(cfg)))), None
        if fe == "numpy_array":
            first = next(iter(tbl["cols"]))
            col = (lambda v: sg.np_col_masked(v, case["inp_masked"])) if case.get("inp_masked") is not None else sg.np_col
            return observe(list(NumpyStream(inp=col(tbl["cols"][first]), time=tarr, **axes).run(Config(cfg)))), first
        if fe in ("xarray_coord", "xarray_var", "xarray_coord_axes", "xarray_other_dim"):
            ds = sg.make_xr(tbl, {"xarray_coord": "coord", "xarray_var": "var", "xarray_coord_axes": "coord_axes",
                                  "xarray_other_dim": "other_dim"}[fe])
            return observe(list(XarrayStream(renamed_ds(ds), **nkw).run(Config(cfg)))), None
        if fe == "netcdf":
            ds = sg.make_xr(tbl, "coord")
            return observe(list(NetcdfStream(renamed_ds(ds), **nkw).run(Config(cfg)))), None
        if fe in ("netcdf_path", "xarray_path"):
            # a netCDF-3 file on disk (scipy engine); time stored as seconds since the Unix epoch, which is what
            # NetcdfStream (decode_cf=False) assumes
            import os
            import tempfile
            ds = renamed_ds(sg.make_xr(tbl, "coord"))
            d = tempfile.mkdtemp(prefix="vf_c05_")
            path = os.path.join(d, "data.nc")
            try:
                # NetcdfStream reads raw numbers and takes them for epoch seconds; XarrayStream decodes the units (whole
                # milliseconds keep the decoding exact for sub-second instants)
                unit = "seconds"
                enc = {names.get("time", "time"): {"units": f"{unit} since 1970-01-01 00:00:00", "dtype": "float64"}} if tbl["t"] is not None else {}
                ds.to_netcdf(path, engine="scipy", encoding=enc)
                cls = NetcdfStream if fe == "netcdf_path" else XarrayStream
                return observe(list(cls(path, **nkw).run(Config(cfg)))), None
            finally:
                import shutil
                shutil.rmtree(d, ignore_errors=True)
    raise ValueError(fe)


def applicable(fe, case):
    tbl = case["table"]
    if fe == "pandas":
        return True
    if tbl.get("index", "default") != "default":
        pass  # the index only exists for pandas; the other front ends see the same rows
    if fe in ("xarray_path", "netcdf_path") and tbl["t"] is not None and any(float(v) != int(v) for v in tbl["t"]):
        # float time values in a file are not exact to the nanosecond for sub-second instants (xarray's decoding, or
        # pandas' float-seconds conversion for the raw values NetcdfStream reads); that is the file round trip's
        # business, not the slicing / dispatch layer's
        return False
    if fe == "qcconfig":
        return len(case["contexts"]) == 1 and len(case["contexts"][0]["streams"]) == 1 and \
            next(iter(case["contexts"][0]["streams"])) in tbl["cols"]
    return True


def check_qcconfig(case, rec, info):
    """QcConfig.run returns the dict-collected results of the single stream."""
    from ioos_qc.config import QcConfig
    tbl = case["table"]
    ctx = case["contexts"][0]
    sid = next(iter(ctx["streams"]))
    entries = ctx["streams"][sid]
    cfg = sg.config_obj([{"window": ctx.get("window"), "streams": {"_stream": entries}}], case["style"])
    kw = {"inp": sg.np_col(tbl["cols"][sid])}
    if tbl["t"] is not None:
        kw["tinp"] = sg.np_time(tbl["t"])
        how = case.get("qc_tinp", "ndarray")
        if how != "ndarray":
            import pandas as pd
            ts = pd.DatetimeIndex(kw["tinp"])
            kw["tinp"] = {"list_datetime": [x.to_pydatetime() for x in ts], "list_timestamp": list(ts), "series": pd.Series(ts),
                          "dtindex": ts}[how]
    if "z" in tbl["axes"]:
        kw["zinp"] = sg.np_col(tbl["axes"]["z"])
    if "lat" in tbl["axes"]:
        kw["lat"] = sg.np_col(tbl["axes"]["lat"])
        kw["lon"] = sg.np_col(tbl["axes"]["lon"])
    site = "QcConfig.run"
    with warnings.catch_warnings():
        warnings.simplefilter("ignore")
        try:
            got = QcConfig(cfg).run(**kw)
        except Exception as e:
            rec.fail(site, f"raised {type(e).__name__}: {str(e)[:200]}", raised=True, exc=type(e).__name__, frontend="qcconfig", **info)
            return
    mask = sg.row_mask(tbl, ctx.get("window"))
    for mod, test, k in entries:
        fl = sg.direct_call({**tbl, "cols": {"_stream": tbl["cols"][sid]}}, mask, "_stream", mod, test, k)
        have = got.get(mod, {}).get(test) if hasattr(got, "get") else None
        if fl is None:
            if have is not None:
                rec.fail(site, f"{mod}.{test} cannot run directly but QcConfig.run reports a result", frontend="qcconfig", **info)
            continue
        if have is None:
            rec.fail(site, f"{mod}.{test}: no result", expected=fl, frontend="qcconfig", missing_result=True, **info)
            continue
        want = []
        it = iter(fl)
        for m in mask:
            want.append(next(it) if m else 2)
        hv = [None if mm else sint(d) for d, mm in zip(np.asarray(np.ma.getdata(have)).ravel().tolist(),
                                                      np.asarray(np.ma.getmaskarray(have)).ravel().tolist())]
        if hv != want:
            rec.fail(site, f"{mod}.{test}: flags differ from the direct call on the window rows", expected=want, got=hv,
                     frontend="qcconfig", **info)


def case_info(case):
    tbl = case["table"]
    ws = [c.get("window") for c in case["contexts"]]
    t = tbl["t"] or []
    excl = any(not all(sg.row_mask(tbl, w)) for w in ws)
    tests = {e[1] for c in case["contexts"] for es in c["streams"].values() for e in es}
    on_end = any(w is not None and w.get("ending") is not None and w["ending"] in t for w in ws)
    on_start = any(w is not None and w.get("starting") is not None and w["starting"] in t for w in ws)
    one_sided = any(w is not None and (w.get("starting") is None) != (w.get("ending") is None) for w in ws)
    info = {
        "window_excludes_row": excl, "row_on_ending": on_end, "row_on_starting": on_start, "one_sided_window": one_sided,
        "any_window": any(w is not None for w in ws), "has_time": tbl["t"] is not None,
        "index": tbl.get("index", "default"), "axis_absent": not ("z" in tbl["axes"] and "lat" in tbl["axes"] and tbl["t"] is not None),
        "neighbour_test": bool(tests & NEIGHBOUR), "n": tbl["n"],
    }
    return info


def check_stream(case, rec):
    ensure()
    info = case_info(case)
    nontriv = ((info["window_excludes_row"] and info["neighbour_test"]) or info["row_on_ending"] or
               info["index"] != "default" or info["axis_absent"])
    labels = [k for k in ("window_excludes_row", "row_on_ending", "row_on_starting", "one_sided_window", "axis_absent",
                          "neighbour_test") if info[k]] + [f"index={info['index']}"] + [f"fe={f}" for f in case["frontends"]]
    if "qcconfig" in case["frontends"]:
        labels.append(f"qc_tinp={case.get('qc_tinp', 'ndarray')}")
    if any(sid in case["table"]["axes"] for c in case["contexts"] for sid in c["streams"]):
        labels.append("axis_column_tested")
    if case.get("axes_masked") is not None:
        labels.append("masked_axis_arrays")
    if case.get("names"):
        labels.append("custom_axis_names")
    if case.get("inp_masked") is not None:
        labels.append("masked_stream_arrays")
    if not info["has_time"]:
        labels.append("no_time_column")
    elif any(float(v) != int(v) for v in case["table"]["t"]):
        labels.append("subsecond_times")
    rec.note(nontriv, labels)
    for fe in case["frontends"]:
        if not applicable(fe, case):
            continue
        if fe == "qcconfig":
            check_qcconfig(case, rec, info)
            continue
        site = {"pandas": "PandasStream.run", "numpy_dict": "NumpyStream.run(dict)", "numpy_array": "NumpyStream.run(array)",
                "xarray_coord": "XarrayStream.run", "xarray_var": "XarrayStream.run(time as data variable)",
                "netcdf": "NetcdfStream.run", "netcdf_path": "NetcdfStream.run(path)", "xarray_path": "XarrayStream.run",
                "xarray_coord_axes": "XarrayStream.run", "xarray_other_dim": "XarrayStream.run(axes on another dimension)"}[fe]
        del sg.PROBE_LOG[:]
        try:
            got, single = run_frontend(fe, case)
        except Exception as e:
            two_sided = any(w is not None and w.get("starting") is not None and w.get("ending") is not None
                            for w in (c.get("window") for c in case["contexts"]))
            rec.fail(site, f"raised {type(e).__name__}: {str(e)[:200]}", raised=True, exc=type(e).__name__, frontend=fe,
                     two_sided_window=two_sided, has_axes=bool(case["table"]["axes"]), **info)
            continue
        log = [dict(p) for p in sg.PROBE_LOG]
        want, probes = expected(case, single, inp_masked=case.get("inp_masked") if fe in ("numpy_dict", "numpy_array") else None)
        if ms(got) != ms(want):
            # find a readable first difference
            gs, wsx = ms(got), ms(want)
            diff_g = [g for g in gs if g not in wsx][:1]
            diff_w = [w for w in wsx if w not in gs][:1]
            kind = "count" if len(got) != len(want) else "content"
            sub_differs = sorted(canon(g["mask"]) for g in got) != sorted(canon(w["mask"]) for w in want)
            explained = []
            if fe in ("xarray_coord", "xarray_var", "xarray_path", "xarray_coord_axes", "xarray_other_dim") and sub_differs:
                dev = set()
                alt, _ = expected(case, single, "var" if fe == "xarray_var" else "coord", dev)
                if ms(alt) == ms(got):
                    explained = sorted(dev)
            rec.fail(site, f"ContextResults differ from the direct calls on the window rows ({kind})",
                     expected=diff_w, got=diff_g, frontend=fe, mask_differs=sub_differs, explained_by=explained, **info)
            continue
        # what the probes were handed
        def norm(p):
            return canon({k: v for k, v in p.items()})
        if sorted(norm(p) for p in log) != sorted(norm(p) for p in probes):
            rec.fail(site, "a probe test was handed arrays that are not the source restricted to the window rows",
                     expected=probes[:2], got=log[:2], frontend=fe, probe=True, **info)


@st.composite
def qc_case(draw, tier="quick"):
    """QcConfig.run: one stream, one context; time axis given in the carriers users pass (arrays, lists of datetimes /
    Timestamps, Series, DatetimeIndex), half of the tables with sub-second sampling."""
    tbl = draw(sg.table(max_rows=20, stream_names=["temp"], force_axes={"time": True}))
    if tbl["t"] and draw(st.booleans()):
        tbl["t"] = [sg.tnorm(int(v) + draw(st.sampled_from([0.0, 0.125, 0.5, 0.875]))) for v in tbl["t"]]
    entries = draw(st.lists(sg.test_entry(tbl), min_size=1, max_size=3, unique_by=lambda e: (e[0], e[1])))
    ctx = {"window": draw(sg.window(tbl["t"])), "streams": {"temp": entries}}
    return {"table": tbl, "contexts": [ctx], "style": draw(st.sampled_from(["iso", "datetime"])), "frontends": ["qcconfig"],
            "qc_tinp": draw(st.sampled_from(["ndarray", "list_datetime", "list_timestamp", "series", "dtindex"]))}


@st.composite
def xarray_case(draw, tier="quick"):
    """Every Dataset layout on the same table and config (axes present more often than not, so that the layouts'
    different ways of finding z / lat / lon matter)."""
    case = draw(stream_case(tier))
    tbl = draw(sg.table(force_axes={"z": draw(st.integers(0, 3)) != 0, "latlon": draw(st.integers(0, 3)) != 0, "time": draw(st.integers(0, 5)) != 0}))
    sids = list(tbl["cols"])
    ctxs = []
    for _ in range(draw(st.sampled_from([1, 1, 2]))):
        streams = {}
        for sid in draw(st.lists(st.sampled_from(sids), min_size=1, max_size=2, unique=True)):
            streams[sid] = draw(st.lists(sg.test_entry(tbl), min_size=1, max_size=3, unique_by=lambda e: (e[0], e[1])))
        ctxs.append({"window": draw(sg.window(tbl["t"])) if tbl["t"] is not None else None, "streams": streams})
    case.update(table=tbl, contexts=ctxs, frontends=["xarray_coord", "xarray_var", "xarray_coord_axes", "xarray_other_dim"])
    return case


SUBS = [Sub("streams", stream_case, check_stream, quick=1600, thorough=24000),
        Sub("xarray_layouts", xarray_case, check_stream, quick=500, thorough=8000),
        Sub("qcconfig", qc_case, check_stream, quick=600, thorough=8000)]
REQUIRED_CLASSES = ["streams:window_excludes_row", "streams:row_on_ending", "streams:axis_absent", "streams:one_sided_window",
                    "streams:index=reversed", "streams:no_time_column"] + [f"streams:fe={f}" for f in FRONTENDS]
