"""C15 - flags do not depend on how the same series and times are represented."""
from __future__ import annotations

import warnings

import numpy as np
from hypothesis import strategies as st

from .. import carriers, model
from ..carriers import CANON, Carrier
from ..core import SKIP, Sub
from ..tests import REG, any_case, times_of
from ..util import flags, sint

ID = "C15"
RULE = ("one logical case per test (values on the dyadic grid, exactly representable in float32) rendered through every "
        "carrier: data/auxiliary as list with None, list/tuple with NaN, float64 / float32 / int64 ndarray (int only when "
        "nothing is missing and values are integral), numpy masked array (NaN or finite junk under the mask), pandas Series "
        "(default and shifted index), dask array, object ndarray; times as datetime64[ns|us|ms|s], list of datetime, list of "
        "Timestamp, naive and UTC-aware DatetimeIndex / Series, epoch seconds as int list / int array / float array; spans as "
        "list or tuple; valid_range_test with and without dtype=. oracle (metamorphic): flags under every carrier equal the "
        "flags under the canonical carrier (float64 ndarray + datetime64[ns] + lists). non-trivial: the case contains a "
        "missing value (so the carriers differ in how missing is encoded) or the test takes a time axis")
ASSUMPTIONS = ["dask time arrays are not generated; time zones other than UTC are (America/New_York, as python datetimes and as pandas objects)",
               "pressure_increasing_test documents no missing-data handling: it gets fully present series",
               "valid_range_test on sequences without a dtype is called with dtype= as its docstring asks"]

DATA_KINDS = ["list_none", "list_nan", "tuple_nan", "f32", "int", "uint", "int16", "masked_nan", "masked_junk", "masked_mixed", "masked_int", "masked_fill", "series", "series_shifted",
              "dask", "object"]
TIME_KINDS = [k for k in carriers.TIME_CARRIERS if k != "dt64ns"]
NAMES = ["gross_range", "climatology", "spike", "roc", "flat_line", "attenuated", "density", "pressure", "location", "speed"]


def has_missing(t, case):
    return any(model.miss(v) for k in t.obs + t.aux for v in case[k])


@st.composite
def carrier_case(draw, tier="quick"):
    tc = draw(any_case(tier, NAMES))
    if tc["test"] == "pressure":
        pass
    tc["junk"] = draw(st.sampled_from([0.0, 1.0, -7.5, 1000.0, -9999.0, 1e20]))
    t = REG()[tc["test"]]
    if t.timed and tc["test"] != "flat_line" and "t" in tc["case"] and draw(st.integers(0, 2)) == 0:
        # sub-second instants (multiples of 1/8 s): still the same logical times in every carrier that can hold them
        shifted_t = [v + draw(st.sampled_from([0.0, 0.125, 0.5, 0.875, 0.25])) for v in tc["case"]["t"]]
        if all(b_ > a_ for a_, b_ in zip(shifted_t, shifted_t[1:])):
            # (an axis that already has sub-second instants and one-second steps could lose its order)
            tc["case"]["t"] = shifted_t
        tc["subsecond"] = True
    # a few random mixed carriers on top of the systematic one-at-a-time sweep
    tc["mixed"] = [{"data": draw(st.sampled_from(DATA_KINDS)), "aux": draw(st.sampled_from(DATA_KINDS)),
                    "time": draw(st.sampled_from(carriers.TIME_CARRIERS)), "span": draw(st.sampled_from(["list", "tuple"]))}
                   for _ in range(2)]
    return tc


def check_carriers(tc, rec):
    name, case = tc["test"], tc["case"]
    t = REG()[name]
    n = t.n(case)
    miss_ = has_missing(t, case)
    rec.note(miss_ or t.timed, [f"test={name}"] + (["has_missing"] if miss_ else []) + (["timed"] if t.timed else []) +
             (["subsecond_times"] if tc.get("subsecond") else []))
    args, kwargs = t.build(case, CANON)
    base = flags(rec, name, rec.call(name, t.func(), *args, **kwargs), n, carrier="canonical")
    if base is SKIP:
        return
    combos = []
    for k in DATA_KINDS:
        if name == "pressure" and k in ("list_none", "masked_nan", "masked_junk", "masked_mixed", "masked_int", "masked_fill", "object"):
            continue
        combos.append(Carrier(data=k, aux="f64", junk=tc.get("junk", 0.0)))
    if t.aux or len(t.obs) > 1:
        for k in DATA_KINDS:
            combos.append(Carrier(data="f64", aux=k, junk=tc.get("junk", 0.0)))
    tvals = times_of(tc["case"]) or []
    if t.timed:
        for k in TIME_KINDS:
            if carriers.time_applicable(k, tvals):
                combos.append(Carrier(time=k))
    combos.append(Carrier(span="tuple"))
    for m in tc.get("mixed", []):
        if name == "pressure" and m["data"] in ("list_none", "masked_nan", "masked_junk", "masked_mixed", "masked_int", "masked_fill", "object"):
            continue
        if not carriers.time_applicable(m["time"], tvals):
            continue
        combos.append(Carrier(data=m["data"], aux=m["aux"], time=m["time"], span=m["span"], junk=tc.get("junk", 0.0)))
    for C in combos:
        d = C.describe()
        site = f"{name}"
        a, kw = t.build(case, C)
        got = flags(rec, site, _call(rec, site, t, a, kw, d), n, carrier=d, test=name)
        if got is SKIP:
            continue
        if got != base:
            i = next(i for i, (x, y) in enumerate(zip(base, got)) if x != y)
            rec.fail(site, f"carrier {d}: flags differ from the canonical carrier at index {i} ({base[i]} -> {got[i]})",
                     expected=base, got=got, index=i, carrier=d, test=name)


def _call(rec, site, t, a, kw, d):
    try:
        return t.func()(*a, **kw)
    except Exception as e:
        rec.fail(site, f"carrier {d}: raised {type(e).__name__}: {str(e)[:150]}", expected="same flags as canonical carrier",
                 got=f"{type(e).__name__}: {str(e)[:150]}", carrier=d, raised=True, exc=type(e).__name__, test=t.name)
        return SKIP


# ---- valid_range_test ----------------------------------------------------------------------------
@st.composite
def valid_case(draw, tier="quick"):
    from . import c03
    case = draw(c03.valid_case(tier))
    return {"case": case, "junk": draw(st.sampled_from([0.0, 3.0, -100.0]))}


def check_valid(tc, rec):
    from . import c03
    from ioos_qc import axds
    case = tc["case"]
    n = len(case["x"])
    miss_ = any(v is None for v in case["x"])
    rec.note(True if (miss_ or case["kind"] == "dt") else False, [f"kind={case['kind']}"] + (["has_missing"] if miss_ else []))
    a, span = c03._valid_inputs(case)
    kw = {} if case.get("defaults") else {"start_inclusive": case["si"], "end_inclusive": case["ei"]}
    site = "valid_range"
    base = flags(rec, site, rec.call(site, axds.valid_range_test, a, span, **kw), n, carrier="canonical")
    if base is SKIP:
        return
    variants = []
    if isinstance(a, np.ma.MaskedArray):
        # the canonical input may itself be a masked array (C03's generator); the other carriers start from plain data
        a = np.where(np.ma.getmaskarray(a), np.datetime64("NaT") if case["kind"] == "dt" else np.nan, np.ma.getdata(a))
    if case["kind"] == "float":
        xs = case["x"]
        for k in ["f32", "masked_nan", "masked_junk", "series", "series_shifted", "dask"]:
            variants.append((k, carriers.data(xs, k, tc.get("junk", 0.0)), {}))
        for k in ["list_none", "list_nan", "tuple_nan", "object"]:
            variants.append((k + "+dtype", carriers.data(xs, k), {"dtype": np.float64}))
        # plain sequences without dtype= (the type is guessed), with the span as given and with an absent bound written
        # as an infinite one
        if not case.get("int_data"):
            inf_span = [(-np.inf if case["lo"] is None else span[0]), (np.inf if case["hi"] is None else span[1])]
            for k in ["list_none", "list_nan", "tuple_nan"]:
                variants.append((k + " (type guessed)", carriers.data(xs, k), {}))
                variants.append((k + " (type guessed, infinite for absent bounds)", carriers.data(xs, k), {"_span": inf_span}))
    else:
        import pandas as pd
        frac = any(v is not None and float(v) != int(v) for v in case["x"])
        far = bool(case.get("far_data"))  # instants that nanoseconds cannot hold: only the carriers that can
        for unit in ("s", "ms", "us", "ns"):
            if (unit == "s" and frac) or (unit == "ns" and far):
                continue  # whole-second resolution cannot carry the same instants
            variants.append((f"dt64{unit}", a.astype(f"datetime64[{unit}]"), {}))
        if not far:
            variants.append(("dtindex", pd.DatetimeIndex(a.astype("datetime64[ns]")), {}))
            variants.append(("series", pd.Series(a.astype("datetime64[ns]")), {}))
            variants.append(("list_dt64+dtype", list(a.astype("datetime64[ns]")), {"dtype": "datetime64[ns]"}))
        else:
            variants.append(("series_us", pd.Series(a.astype("datetime64[us]")), {}))
        variants.append(("masked", np.ma.MaskedArray(np.where(np.isnat(a), np.datetime64(0, "s").astype(a.dtype), a),
                                                     mask=np.isnat(a)), {}))
        if not miss_ and n and not far:
            # a plain list of naive python datetimes, bounds as python datetimes (far-away ones included), no dtype
            import datetime as dtm0

            def naive(v):
                return None if v is None else dtm0.datetime(1970, 1, 1) + dtm0.timedelta(milliseconds=int(round(float(v) * 1000)))
            try:
                variants.append(("list_datetimes (type guessed)", [naive(v) for v in case["x"]], {"_span": [naive(case["lo"]), naive(case["hi"])]}))
            except OverflowError:
                pass
        if not miss_ and n and case["lo"] is not None and case["hi"] is not None and not case.get("far_bounds") and not far:
            # timezone-aware python datetimes (data in one zone, bounds in another), no dtype given
            import datetime as dtm
            from zoneinfo import ZoneInfo

            def aware(v, zone):
                return (dtm.datetime(1970, 1, 1, tzinfo=dtm.timezone.utc) + dtm.timedelta(milliseconds=int(round(float(v) * 1000)))).astimezone(zone)
            ny, syd = ZoneInfo("America/New_York"), ZoneInfo("Australia/Sydney")
            aware_variant = ("list_aware_datetimes", [aware(v, ny) for v in case["x"]], [aware(case["lo"], syd), aware(case["hi"], dtm.timezone.utc)])
    if case["kind"] == "dt" and "aware_variant" in locals():
        label, data, sp = aware_variant
        r, err = None, None
        try:
            with warnings.catch_warnings():
                warnings.simplefilter("ignore")
                r = axds.valid_range_test(data, sp, **kw)
        except Exception as e:
            err = e
        if err is not None:
            rec.fail(site, f"carrier {label}: raised {type(err).__name__}: {str(err)[:150]}", carrier=label, raised=True,
                     exc=type(err).__name__, got=f"{type(err).__name__}: {str(err)[:150]}")
        else:
            got = flags(rec, site, r, n, carrier=label)
            if got is not SKIP and got != base:
                i = next(i for i, (x, y) in enumerate(zip(base, got)) if x != y)
                rec.fail(site, f"carrier {label}: flags differ from canonical at index {i} ({base[i]} -> {got[i]})",
                         expected=base, got=got, index=i, carrier=label)
    for label, data, extra in variants:
        extra = dict(extra)
        span_v = extra.pop("_span", span)
        for sp in (span_v, tuple(span_v) if isinstance(span_v, list) else list(span_v)):
            try:
                with warnings.catch_warnings():
                    warnings.simplefilter("ignore")
                    r = axds.valid_range_test(data, sp, **kw, **extra)
            except Exception as e:
                rec.fail(site, f"carrier {label}: raised {type(e).__name__}: {str(e)[:150]}", carrier=label, raised=True,
                         exc=type(e).__name__, got=f"{type(e).__name__}: {str(e)[:150]}")
                break
            got = flags(rec, site, r, n, carrier=label)
            if got is SKIP:
                break
            if got != base:
                i = next(i for i, (x, y) in enumerate(zip(base, got)) if x != y)
                rec.fail(site, f"carrier {label}: flags differ from canonical at index {i} ({base[i]} -> {got[i]})",
                         expected=base, got=got, index=i, carrier=label)
                break


SUBS = [
    Sub("carriers", carrier_case, check_carriers, quick=1200, thorough=24000),
    Sub("valid_range_carriers", valid_case, check_valid, quick=800, thorough=12000),
]
REQUIRED_CLASSES = ["carriers:has_missing", "carriers:timed", "carriers:subsecond_times"] + [f"carriers:test={t}" for t in NAMES]


# ---- the same mutable carrier object reused with new content ---------------------------------------------
def _variant(case, name):
    """A second logical case of the same test and length: values reversed, time steps doubled."""
    import copy
    b = copy.deepcopy(case)
    t = REG()[name]
    for k in t.obs + t.aux:
        b[k] = b[k][::-1]
    if "t" in b and b["t"]:
        t0 = b["t"][0]
        b["t"] = [t0 + 2 * (v - t0) + 3 for v in b["t"]]
    if "D" in b:
        b["D"] = b["D"] * 2
        b["t0"] = b["t0"] + 3
    return b


@st.composite
def reuse_case(draw, tier="quick"):
    tc = draw(any_case(tier, [n for n in NAMES if n != "pressure"]))
    tc["data_kind"] = draw(st.sampled_from(["list_none", "list_nan", "f64", "object"]))
    tc["time_kind"] = draw(st.sampled_from(["epoch_list", "list_datetime", "list_timestamp", "dt64ns", "epoch_int"]))
    return tc


def check_reuse(tc, rec):
    name, case = tc["test"], tc["case"]
    t = REG()[name]
    n = t.n(case)
    rec.note(n >= 1 and (t.timed or has_missing(t, case)), [f"test={name}", f"time={tc['time_kind']}", f"data={tc['data_kind']}"])
    other = _variant(case, name)
    tk = tc["time_kind"]
    if not (carriers.time_applicable(tk, times_of(case) or []) and carriers.time_applicable(tk, times_of(other) or [])):
        tk = "dt64ns"  # (integer epoch seconds cannot hold sub-second instants)
    C = Carrier(data=tc["data_kind"], time=tk)
    a_args, a_kw = t.build(case, C)
    first = _call(rec, name, t, a_args, a_kw, {"step": "first"})
    if first is SKIP:
        return
    b_args, b_kw = t.build(other, C)
    # overwrite the *same* list / array objects with the second case's content
    for x, y in zip(a_args, b_args):
        try:
            if isinstance(x, list) and isinstance(y, list) and len(x) == len(y):
                x[:] = y
            elif isinstance(x, np.ndarray) and isinstance(y, np.ndarray) and x.shape == y.shape and x.dtype == y.dtype:
                x[...] = y
            else:
                return  # carrier not mutable in place (tuples, config objects): nothing to reuse
        except Exception:
            return
    reused = flags(rec, name, _call(rec, name, t, a_args, b_kw, {"step": "reused objects"}), n, step="reused")
    fresh_args, fresh_kw = t.build(other, CANON)
    fresh = flags(rec, name, _call(rec, name, t, fresh_args, fresh_kw, {"step": "fresh"}), n, step="fresh")
    if reused is SKIP or fresh is SKIP:
        return
    if reused != fresh:
        i = next(i for i, (p, q) in enumerate(zip(fresh, reused)) if p != q)
        rec.fail(name, f"a list/array object that was passed before and then refilled gives different flags than fresh canonical "
                 f"arrays with the same content (index {i}: {fresh[i]} -> {reused[i]})", expected=fresh, got=reused, index=i,
                 reused_object=True, carrier=C.describe(), test=name)


SUBS.append(Sub("reused_mutable_carriers", reuse_case, check_reuse, quick=1500, thorough=20000))


# ---- memory layout of N-d inputs: the same logical array, C-ordered or Fortran-ordered ------------------------
ND_TESTS = ["gross_range", "spike", "roc", "flat_line", "climatology", "location"]


@st.composite
def layout_case(draw, tier="quick"):
    tc = draw(any_case(tier, ND_TESTS))
    n = REG()[tc["test"]].n(tc["case"])
    divs = [r for r in range(1, n + 1) if n % r == 0] or [1]
    tc["rows"] = draw(st.sampled_from(divs))
    return tc


def check_layout(tc, rec):
    name, case = tc["test"], tc["case"]
    t = REG()[name]
    n = t.n(case)
    r = tc["rows"]
    c = n // r if r else 0
    rec.note(n >= 4 and 1 < r < n, [f"test={name}", f"shape={'2d' if 1 < r < n else 'degenerate'}"])
    if n == 0:
        return
    args, kw = t.build(case, CANON)

    def shaped(a, how):
        if isinstance(a, np.ndarray) and a.ndim == 1 and a.shape[0] == n:
            b = a.reshape(r, c)
            if how == "F":
                return np.asfortranarray(b)
            if how == "T":
                return np.ascontiguousarray(b.T).T  # a transposed view: same logical array, column-major memory
            return np.ascontiguousarray(b)
        return a
    res = {}
    for how in ("C", "F", "T"):
        a2 = tuple(shaped(a, how) for a in args)
        out = _call(rec, name, t, a2, kw, {"layout": how})
        if out is SKIP:
            return
        data, mask = np.ma.getdata(out), np.ma.getmaskarray(out)
        if np.shape(data) != (r, c):
            rec.fail(name, f"layout {how}: result shape {np.shape(data)} != input shape {(r, c)}", layout=how, test=name)
            return
        res[how] = [None if m else sint(v) for v, m in zip(np.asarray(data).ravel().tolist(), np.asarray(mask).ravel().tolist())]
    for how in ("F", "T"):
        if res[how] != res["C"]:
            i = next(i for i, (p, q) in enumerate(zip(res["C"], res[how])) if p != q)
            rec.fail(name, f"the same logical 2-D array in {how}-ordered memory gives different flags than in C order (element {i}: "
                     f"{res['C'][i]} -> {res[how][i]})", expected=res["C"], got=res[how], index=i, layout=how, test=name)
            return


# ---- narrow float dtypes: values that are exact in float32 but not dyadic ------------------------------------
@st.composite
def narrow_case(draw, tier="quick"):
    n = draw(st.integers(3, 12))
    ks = draw(st.lists(st.integers(-30, 60), min_size=n, max_size=n))
    dt = draw(st.sampled_from(["float32", "float16"]))
    thr = st.sampled_from([0.1, 0.2, 0.3, 0.4, 0.5, 1.0, 0.05, 0.15])
    return {"test": draw(st.sampled_from(["spike_average", "spike_differential", "gross_range", "roc", "flat_line"])),
            "k": ks, "dtype": dt, "a": draw(thr), "b": draw(thr), "container": draw(st.sampled_from(["ndarray", "series"]))}


def check_narrow(case, rec):
    from ioos_qc import qartod
    import pandas as pd
    narrow = np.array([k / 10 for k in case["k"]], dtype=case["dtype"])
    wide = narrow.astype(np.float64)  # exactly the same numbers
    n = len(case["k"])
    tt = (np.datetime64("2020-01-01", "ns") + (np.arange(n) * 60).astype("timedelta64[s]"))
    a, b = case["a"], case["b"]
    name = case["test"]
    fns = {
        "spike_average": lambda x: qartod.spike_test(x, suspect_threshold=min(a, b), fail_threshold=max(a, b)),
        "spike_differential": lambda x: qartod.spike_test(x, suspect_threshold=min(a, b), fail_threshold=max(a, b), method="differential"),
        "gross_range": lambda x: qartod.gross_range_test(x, fail_span=(-a * 10, b * 10), suspect_span=(-a * 5, b * 5)),
        "roc": lambda x: qartod.rate_of_change_test(x, tt, a / 60),
        "flat_line": lambda x: qartod.flat_line_test(x, tt, 60, 120, a),
    }
    rec.note(True, [f"test={name}", f"dtype={case['dtype']}"])
    f = fns[name]
    x_n = pd.Series(narrow) if case["container"] == "series" else narrow
    want = flags(rec, name, rec.call(name, f, wide), n, carrier="float64")
    got = flags(rec, name, rec.call(name, f, x_n), n, carrier=case["dtype"])
    if want is SKIP or got is SKIP:
        return
    if want != got:
        i = next(i for i, (p, q) in enumerate(zip(want, got)) if p != q)
        rec.fail(name, f"{case['dtype']} {case['container']} gives different flags than a float64 array holding exactly the same "
                 f"numbers (index {i}: {want[i]} -> {got[i]})", expected=want, got=got, index=i, narrow_dtype=case["dtype"], test=name)


SUBS.append(Sub("memory_layout", layout_case, check_layout, quick=1200, thorough=16000))
SUBS.append(Sub("narrow_float", narrow_case, check_narrow, quick=3000, thorough=40000))
