"""C19 - the pandas store writes one aligned, uniquely named column per test result."""
from __future__ import annotations

import re
import warnings

import numpy as np
from hypothesis import strategies as st

from .. import model
from .. import streamgen as sg
from ..util import sint
from ..core import SKIP, Sub

ID = "C19"
RULE = ("runs produced by PandasStream on a default-index frame (0..15 rows, with/without z / lat+lon columns): 1..3 contexts "
        "with absent or disjoint closed windows, 1..3 streams whose ids contain dots, spaces, dashes, unicode, leading digits "
        "or underscores (and pairs that collide after sanitising such as a.b / a_b), 1..3 runnable tests each -> "
        "PandasStore(results).save() under all 4 (write_data, write_axes) combinations and include / exclude lists drawn "
        "from {None, [], subsets of stream ids + test names + test functions, names matching nothing}, optionally after "
        "compute_aggregate(name). oracle: column model - row count and order, one CF-safe column per result that passes the "
        "filters holding its flags on evaluated rows and null elsewhere, no other QC column, data columns iff write_data, "
        "axis columns iff write_axes with source values wherever non-null, roll-up column == pointwise aggregate of all "
        "results. cf_safe_name separately on arbitrary text (alphabet, not digit-leading, deterministic, non-strings -> "
        "ValueError). non-trivial: a filter list that keeps some and drops some results, or >=2 contexts (null cells), or a "
        "stream id that needs sanitising")
ASSUMPTIONS = ["stream ids never equal the axis column names time/z/lat/lon",
               "with zero collected results the frame is empty and only its emptiness is checked",
               "the roll-up column is checked when the filters do not exclude it"]
IDS = ["temp", "sal", "sea.water.temp", "sea water", "1var", "_x", "a.b", "a_b", "T-90", "température", "var_1", "9", "x y.z"]
CF_RE = re.compile(r"^[A-Za-z_][A-Za-z0-9_]*$")


def sanitize(name):
    return "".join(ch if (ch.isascii() and (ch.isalnum() or ch == "_")) else "_" for ch in name)


@st.composite
def store_case(draw, tier="quick"):
    names = draw(st.lists(st.sampled_from(IDS), min_size=1, max_size=3, unique=True))
    if draw(st.integers(0, 7)) == 0:
        names = ["a.b", "a_b"] + [x for x in names if x not in ("a.b", "a_b")][:1]
    tbl = draw(sg.table(max_rows=15, stream_names=names, force_axes={"time": True}))
    tbl["index"] = "default"
    t = tbl["t"]
    nctx = draw(st.sampled_from([1, 1, 2, 3]))
    cuts = None
    if t and draw(st.booleans()):
        idx = sorted(draw(st.lists(st.integers(0, len(t)), min_size=nctx + 1, max_size=nctx + 1)))
        cuts = [(t[i] - 3 if i < len(t) else t[-1] + 3) for i in idx]
    ctxs = []
    for k in range(nctx):
        streams = {}
        for sid in draw(st.lists(st.sampled_from(names), min_size=1, max_size=3, unique=True)):
            streams[sid] = draw(st.lists(sg.test_entry(tbl, allow=["gross_range_test", "spike_test", "rate_of_change_test",
                                                                   "flat_line_test", "pressure_increasing_test",
                                                                   "valid_range_test", "location_test", "density_inversion_test"]),
                                         min_size=1, max_size=3, unique_by=lambda e: (e[0], e[1])))
        if cuts is not None:
            ctxs.append({"window": {"starting": cuts[k], "ending": cuts[k + 1]}, "streams": streams})
        else:
            ctxs.append({"window": None, "streams": streams})
            break
    tests = sorted({e[1] for c in ctxs for es in c["streams"].values() for e in es})
    # (the roll-up is a result like any other: selectable by its name or by the aggregate function)
    pool = names + tests + [f"fn:{x}" for x in tests] + ["nothing_matches", "", "fn:aggregate", "fn:aggregate", "rollup", "aggregate"]
    flt = st.one_of(st.none(), st.just([]), st.lists(st.sampled_from(pool), min_size=1, max_size=3, unique=True))
    return {"table": tbl, "contexts": ctxs, "write_data": draw(st.booleans()), "write_axes": draw(st.booleans()),
            "include": draw(flt), "exclude": draw(flt), "aggregate": draw(st.sampled_from([None, None, "rollup", "qc agg", "1agg"])),
            "second": draw(st.one_of(st.none(), st.fixed_dictionaries({"write_data": st.booleans(), "write_axes": st.booleans(),
                                                                     "include": flt, "exclude": flt}))),
            "style": draw(st.sampled_from(["iso", "datetime"])),
            "axes_names": draw(st.sampled_from([None, None, None, {"t": "obs_time", "z": "depth", "y": "latitude", "x": "longitude"},
                                                {"t": "t", "z": "lat", "y": "y", "x": "x"}]))}


def resolve(items):
    """filter list from the case -> python objects (fn:<name> -> the function)."""
    if items is None:
        return None
    from ioos_qc import argo, axds, qartod
    out = []
    for it in items:
        if it.startswith("fn:"):
            nm = it[3:]
            for m in (qartod, argo, axds):
                if hasattr(m, nm):
                    out.append(getattr(m, nm))
                    break
        else:
            out.append(it)
    return out


def check_store(case, rec, _store=None):
    from ioos_qc.config import Config
    from ioos_qc.stores import PandasStore
    from ioos_qc.streams import PandasStream
    tbl = case["table"]
    n = tbl["n"]
    inc, exc = resolve(case["include"]), resolve(case["exclude"])
    cfg = sg.config_obj(case["contexts"], case["style"])
    site = "PandasStore.save"
    if _store is not None:
        store, collected = _store  # a further save() on the same store: what was written before must not linger
    else:
        with warnings.catch_warnings():
            warnings.simplefilter("ignore")
            try:
                skw = {"axes": dict(case["axes_names"])} if case.get("axes_names") else {}
                store = PandasStore(PandasStream(sg.make_df(tbl)).run(Config(cfg)), **skw)
                collected = list(store.collected_results)
            except Exception as e:
                rec.fail("PandasStore()", f"raised {type(e).__name__}: {str(e)[:200]}", raised=True, exc=type(e).__name__)
                return
    # what each (stream, module, test) is expected to hold, from direct calls on the window rows
    direct = {}
    for c in case["contexts"]:
        mask = sg.row_mask(tbl, c.get("window"))
        for sid, entries in c["streams"].items():
            for mod, test, kw in entries:
                fl = sg.direct_call(tbl, mask, sid, mod, test, kw)
                if fl is None:
                    continue
                colv = direct.setdefault((sid, mod, test), [None] * n)
                it = iter(fl)
                for i, m in enumerate(mask):
                    if m:
                        colv[i] = next(it)
    # ---- model of the expected columns from the collected results themselves ------------------------
    def passes(cr):
        keep = inc is None or (cr.function in inc or cr.stream_id in inc or cr.test in inc)
        drop = exc is not None and (cr.function in exc or cr.stream_id in exc or cr.test in exc)
        return keep and not drop
    names = {}
    kept, dropped = 0, 0
    for cr in collected:
        raw = f"{cr.stream_id}.{cr.package}.{cr.test}"
        if passes(cr):
            kept += 1
            names.setdefault(sanitize(raw), []).append(cr)
        else:
            dropped += 1
    collision = any(len(v) > 1 for v in names.values())
    needs_sanitising = any(sanitize(s) != s or s[0].isdigit() or s[0] == "_" for s in tbl["cols"])
    nctx = len(case["contexts"])
    labels = [lab for lab, on in (("filter_keeps_and_drops", kept and dropped), ("multi_context", nctx >= 2),
                                  ("needs_sanitising", needs_sanitising), ("name_collision", collision),
                                  ("include", inc is not None), ("exclude", exc is not None), ("aggregate", case["aggregate"]),
                                  ("no_results", not collected), ("second_save_on_same_store", _store is not None),
                                  ("custom_axis_column_names", bool(case.get("axes_names")))) if on] + \
        [f"wd={int(case['write_data'])},wa={int(case['write_axes'])}"]
    rec.note(bool((kept and dropped) or nctx >= 2 or needs_sanitising), labels)
    info = {"collision": collision, "include_given": inc is not None, "exclude_given": exc is not None}
    with warnings.catch_warnings():
        warnings.simplefilter("ignore")
        try:
            if case["aggregate"] and collected and _store is None:
                store.compute_aggregate(name=case["aggregate"])
            df = store.save(write_data=case["write_data"], write_axes=case["write_axes"], include=inc, exclude=exc)
        except Exception as e:
            rec.fail(site, f"raised {type(e).__name__}: {str(e)[:200]}", raised=True, exc=type(e).__name__, **info)
            return
    if not collected:
        if len(df.columns) != 0:
            rec.fail(site, f"no results were collected but the frame has columns {list(df.columns)}", **info)
        return
    cols = list(df.columns)
    used = set()
    if len(df) != n and len(cols) > 0:
        rec.fail(site, f"frame has {len(df)} rows, input has {n}", expected=n, got=len(df), **info)
        return
    for sname, crs in names.items():
        cands = [sname] + ([f"v_{sname}"] if (sname[0].isdigit() or sname[0] == "_") else [])
        col = next((c for c in cands if c in df.columns), None)
        if col is None:
            rec.fail(site, f"no column for result {crs[0].stream_id}.{crs[0].package}.{crs[0].test} (expected {cands})",
                     expected=cands, got=cols, missing_column=True, **info)
            continue
        if not CF_RE.match(col):
            rec.fail(site, f"column name {col!r} is not CF-safe", got=col, **info)
        used.add(col)
        if len(crs) > 1:
            rec.fail(site, f"{len(crs)} results share the column name {col!r}: only one can be stored", got=col,
                     lost=[c.stream_id for c in crs], shared_column=True, **info)
            continue
        cr = crs[0]
        want_d, want_m = np.ma.getdata(cr.results), np.ma.getmaskarray(cr.results)
        # independent of the collecting step: the scatter of the direct calls over the (disjoint) windows
        ind = direct.get((cr.stream_id, cr.package, cr.test))
        if ind is not None and len(ind) == n:
            want_d = np.array([0 if v is None else v for v in ind])
            want_m = np.array([v is None for v in ind], dtype=bool)
        series = df[col]
        for i in range(n):
            v = series.iloc[i]
            isnull = v is None or (isinstance(v, float) and v != v) or str(v) in ("<NA>", "nan", "--")
            if want_m[i]:
                if not isnull:
                    rec.fail(site, f"column {col}: row {i} was not evaluated but holds {v!r}", row=i, **info)
                    break
            elif isnull or sint(v) != sint(want_d[i]):
                rec.fail(site, f"column {col}: row {i} should hold flag {sint(want_d[i])}, holds {v!r}", row=i, **info)
                break
    # aggregate column
    agg_col = None
    if case["aggregate"]:
        agg = store.collected_results[-1]
        sname = sanitize(f"qartod.{case['aggregate']}")
        if passes(agg):
            if sname not in df.columns:
                rec.fail(site, f"roll-up column {sname!r} missing", got=cols, **info)
            else:
                agg_col = sname
                used.add(sname)
                vecs = []
                for cr in collected:
                    d, m = np.ma.getdata(cr.results), np.ma.getmaskarray(cr.results)
                    vecs.append([None if mm else sint(v) for v, mm in zip(d.tolist(), m.tolist())])
                want = model.model_compare(vecs) if vecs else []
                got = [None if (v is None or v != v) else sint(v) for v in df[sname].tolist()] if n else []
                if got != want:
                    rec.fail(site, "roll-up column differs from the pointwise aggregate of all results", expected=want, got=got, **info)
    # data / axis columns
    # (the store writes the axis columns under the names its `axes` argument gives them)
    axn = case.get("axes_names") or {"t": "time", "z": "z", "y": "lat", "x": "lon"}
    tname = axn["t"]
    src = {tname: sg.np_time(tbl["t"])}
    for a, key in (("z", "z"), ("lat", "y"), ("lon", "x")):
        if a in tbl["axes"]:
            src[axn[key]] = sg.np_col(tbl["axes"][a])
    any_kept = kept > 0 or True
    for a, arr in src.items():
        if case["write_axes"]:
            if a in df.columns:
                used.add(a)
                colv = df[a]
                for i in range(n):
                    v = colv.iloc[i]
                    isnull = v is None or str(v) in ("NaT", "nan", "<NA>", "--") or (isinstance(v, float) and v != v)
                    if isnull:
                        continue
                    same = (np.datetime64(v, "ns") == arr[i]) if a == tname else ((float(v) == arr[i]) or (arr[i] != arr[i]))
                    if not same:
                        rec.fail(site, f"axis column {a}: row {i} holds {v!r}, source has {arr[i]!r}", row=i, axis=a, **info)
                        break
            elif n > 0:
                rec.fail(site, f"write_axes=True but axis column {a!r} is missing", got=cols, axis=a, **info)
        elif a in df.columns:
            rec.fail(site, f"write_axes=False but axis column {a!r} was written", got=cols, axis=a, **info)
    for a in (axn["z"], axn["y"], axn["x"]):
        # an axis the source does not have may still appear as an all-null column (harmless; statement is silent)
        if a not in src and a in df.columns:
            if case["write_axes"] and bool(df[a].isnull().all()):
                used.add(a)
    kept_streams = {cr.stream_id for crs in names.values() for cr in crs}
    for sid in tbl["cols"]:
        if sid in df.columns:
            used.add(sid)
            if not case["write_data"]:
                rec.fail(site, f"write_data=False but data column {sid!r} was written", got=cols, **info)
            elif sid not in kept_streams:
                rec.fail(site, f"data column {sid!r} written although every result of that stream was filtered out", got=cols, **info)
        elif case["write_data"] and sid in kept_streams and n > 0:
            rec.fail(site, f"write_data=True but data column {sid!r} is missing", got=cols, **info)
    extra = [c for c in cols if c not in used]
    if extra:
        rec.fail(site, f"unexpected columns {extra}", got=cols, extra_columns=True, second_save=_store is not None, **info)
    if _store is None and case.get("second"):
        check_store({**case, **case["second"], "second": None}, rec, _store=(store, collected))


# ---- cf_safe_name ---------------------------------------------------------------------------------
text = st.one_of(st.sampled_from(IDS + ["", "_", "9", "a" * 40, "a\nb", "ö", "temp(1)", "x/y", "__a__"]),
                 st.text(max_size=12), st.text(alphabet="ab1_ .-é/", min_size=1, max_size=10))


@st.composite
def name_case(draw, tier="quick"):
    if draw(st.integers(0, 9)) == 0:
        return {"kind": "nonstring", "value": draw(st.sampled_from([None, 5, 1.5, ["a"], {"a": 1}, 7]))}
    return {"kind": "text", "value": draw(text)}


def check_name(case, rec):
    from ioos_qc.utils import cf_safe_name
    site = "utils.cf_safe_name"
    if case["kind"] == "nonstring":
        rec.note(True, ["nonstring"])
        rec.expect_raises(site, (ValueError,), cf_safe_name, case["value"])
        return
    s = case["value"]
    rec.note(len(s) > 0 and (sanitize(s) != s or s[0].isdigit()), ["text"] + (["needs_change"] if sanitize(s) != s else []))
    out = rec.call(site, cf_safe_name, s)
    if out is SKIP:
        return
    if s and not CF_RE.match(out):
        rec.fail(site, f"cf_safe_name({s!r}) = {out!r} is not CF-safe", got=out)
        return
    body = sanitize(s)
    if s and out not in (body, "v_" + body):
        rec.fail(site, f"cf_safe_name({s!r}) = {out!r}, expected the character-wise sanitisation {body!r} (optionally v_ prefixed)",
                 expected=body, got=out)
    if s and body and (body[0].isdigit()) and not out.startswith("v_"):
        rec.fail(site, f"cf_safe_name({s!r}) = {out!r} starts with a digit", got=out)
    if rec.call(site, cf_safe_name, s) != out:
        rec.fail(site, "not deterministic")


SUBS = [
    Sub("store", store_case, check_store, quick=2000, thorough=24000),
    Sub("cf_safe_name", name_case, check_name, quick=1500, thorough=20000, quick_shards=1),
]
REQUIRED_CLASSES = ["store:filter_keeps_and_drops", "store:multi_context", "store:needs_sanitising", "store:include",
                    "store:exclude", "store:aggregate", "store:name_collision"]
