"""C08 - climatology flags follow the last matching member; unmatched points are UNKNOWN."""
from __future__ import annotations

import datetime as dtm

import numpy as np
from hypothesis import strategies as st

from .. import gen, model
from ..core import SKIP, Enum, Sub
from ..util import carr, arr, compare, epoch32, flags, tarr

ID = "C08"
RULE = ("n=0..12 points; times biased to ISO-week / day-of-year edges (Dec 28-Jan 4 of 2018-2022, Feb 28/29, Mar 1) as "
        "datetime64 or epoch seconds; dyadic values and depths with missing (depth present / some missing / all missing); "
        "0..4 members, tspan absolute (ISO string, Timestamp, datetime64; either order; often ending on an observation "
        "time) or periodic over {month, week, weekofyear, dayofyear, dayofweek, quarter, year} (bounds either order), "
        "vspan either order, optional fspan (containing vspan or not), optional zspan; values on / beside every span bound; "
        "config as list of dicts or ClimatologyConfig. oracle: literal statement model (last matching member wins). "
        "non-trivial: >=2 members match one point, or a value lies on a span bound, or a time lies on a tspan end or in ISO "
        "week 52/53/1, or depth missing with a depth-banded member. Exhaustive: every calendar day 2018-12-24..2022-01-07 "
        "against single periodic members")
ASSUMPTIONS = ["python datetime.isocalendar / calendar arithmetic is the trusted definition of the calendar periods",
               "times are naive UTC whole seconds", "dyadic values: span comparisons are exact"]
Q = 0.125
PERIODS = ["month", "week", "weekofyear", "dayofyear", "dayofweek", "quarter", "year"]
PRANGE = {"month": (1, 12), "week": (1, 53), "weekofyear": (1, 53), "dayofyear": (1, 366), "dayofweek": (0, 6),
          "quarter": (1, 4), "year": (2017, 2023)}


def _clim():
    from ioos_qc import qartod
    return qartod


def epoch(y, m, d, h=0, mi=0, s=0):
    return int((dtm.datetime(y, m, d, h, mi, s) - dtm.datetime(1970, 1, 1)).total_seconds())


EDGE_DAYS = [epoch(y, 12, d) for y in (2018, 2019, 2020, 2021) for d in (28, 29, 30, 31)] + \
            [epoch(y, 1, d) for y in (2019, 2020, 2021, 2022) for d in (1, 2, 3, 4)] + \
            [epoch(2020, 2, 28), epoch(2020, 2, 29), epoch(2020, 3, 1), epoch(2021, 2, 28), epoch(2021, 3, 1),
             epoch(2020, 6, 30), epoch(2020, 7, 1), epoch(2020, 3, 31), epoch(2020, 4, 1)]


@st.composite
def obs_time(draw):
    base = draw(st.one_of(st.sampled_from(EDGE_DAYS), st.integers(epoch(2018, 1, 1), epoch(2022, 12, 31))))
    if draw(st.booleans()):
        base = base - base % 86400 + draw(st.sampled_from([0, 1, 43200, 86399]))
    return base


@st.composite
def member(draw, ts, vals_pts, z_pts):
    m = {}
    if draw(st.booleans()):
        p = draw(st.sampled_from(PERIODS))
        lo, hi = PRANGE[p]
        vals = [model.period_value(t, p) for t in ts] or [lo]
        pick = st.one_of(st.integers(lo, hi), st.sampled_from(vals), st.sampled_from(vals).map(lambda v: v + 1),
                         st.sampled_from(vals).map(lambda v: v - 1))
        a, b = draw(pick), draw(pick)
        m["period"] = p
        m["tspan"] = [a, b]
    else:
        pick = st.one_of(st.sampled_from(ts or [0]), st.sampled_from(ts or [0]).map(lambda v: v + draw(st.sampled_from([-1, 1, -86400, 86400, 7 * 86400]))),
                         st.integers(epoch(2017, 1, 1), epoch(2023, 12, 31)))
        a, b = draw(pick), draw(pick)
        if draw(st.integers(0, 2)) == 0:
            a, b = epoch(2017, 1, 1), epoch(2023, 12, 31)
        m["period"] = None
        m["tspan"] = [a, b]
        # (any spelling pd.Timestamp understands: ISO, US month/day/year, unpadded, day-month-name; datetime64 of the
        # coarsest unit that holds the instant)
        m["tspan_as"] = draw(st.sampled_from(["iso", "ts", "dt64", "us", "loose", "dmy", "dt64coarse"]))
    v = st.one_of(st.sampled_from(vals_pts), gen.dyadic(3, -16, 16)) if vals_pts else gen.dyadic(3, -16, 16)
    a, b = draw(v), draw(v)
    m["vspan"] = [a, b]
    fm = draw(st.sampled_from(["none", "none", "wider", "free"]))
    if fm == "wider":
        m["fspan"] = [min(a, b) - draw(st.sampled_from([0.0, Q, 2.0])), max(a, b) + draw(st.sampled_from([0.0, Q, 2.0]))]
    elif fm == "free":
        m["fspan"] = [draw(v), draw(v)]
    else:
        m["fspan"] = None
    if draw(st.booleans()):
        zz = st.one_of(st.sampled_from(z_pts), gen.dyadic(3, 0, 64)) if z_pts else gen.dyadic(3, 0, 64)
        m["zspan"] = [draw(zz), draw(zz)]
        if draw(st.integers(0, 3)) == 0:
            m["zspan"] = [0.0, 64.0]
    else:
        m["zspan"] = None
    if draw(st.booleans()):
        m["vspan"] = m["vspan"][::-1] if draw(st.booleans()) else m["vspan"]
    return m


@st.composite
def clim_case(draw, tier="quick"):
    n = draw(gen.length(12))
    ts = sorted(draw(st.lists(obs_time(), min_size=n, max_size=n)))
    x = draw(st.lists(gen.dyadic(3, -16, 16), min_size=n, max_size=n))
    zmode = draw(st.sampled_from(["present", "present", "some", "all_missing"]))
    z = draw(st.lists(gen.dyadic(3, 0, 64), min_size=n, max_size=n))
    if zmode == "some":
        z = draw(gen.overlay_missing(z))
    elif zmode == "all_missing":
        z = [draw(gen.missing_marker) for _ in range(n)]
    k = draw(st.integers(0, 4))
    members = []
    for _ in range(k):
        members.append(draw(member(ts, [v for v in x], [v for v in z if not model.miss(v)])))
    if len(members) >= 2 and draw(st.integers(0, 4)) == 0:
        # the same member again later in the list ([A, B, A]): the *last* matching member decides
        import copy as _copy
        members.append(_copy.deepcopy(members[draw(st.integers(0, len(members) - 2))]))
    # move some values onto span bounds
    bounds = [b for m in members for sp in (m["vspan"], m.get("fspan")) if sp for b in sp]
    if bounds and n:
        for i in range(n):
            if draw(st.integers(0, 2)) == 0:
                x[i] = draw(st.sampled_from(bounds)) + draw(st.sampled_from([0.0, 0.0, Q, -Q]))
    x = draw(gen.overlay_missing(x))
    tc = draw(st.sampled_from(["dt64", "dt64", "epoch", "epoch32"]))
    if n and draw(st.integers(0, 3)) == 0:
        # observations between the whole seconds the spans are written in (strictly increasing is kept: shifts < 1 s
        # of distinct whole seconds; equal instants get equal shifts)
        sh = {v: draw(st.sampled_from([0.0, 0.125, 0.5, 0.875])) for v in sorted(set(ts))}
        ts = [v + sh[v] if sh[v] else v for v in ts]
        tc = "dt64"
    return {"x": x, "t": ts, "z": z, "members": members, "tc": tc,
            "cfg": draw(st.sampled_from(["dicts", "object"]))}


def render_members(members):
    import pandas as pd
    out = []
    for m in members:
        d = {"vspan": tuple(m["vspan"])}
        if m.get("period"):
            d["tspan"] = tuple(m["tspan"])
            d["period"] = m["period"]
        else:
            how = m.get("tspan_as", "iso")
            cv = []
            for e in m["tspan"]:
                dt = dtm.datetime(1970, 1, 1) + dtm.timedelta(seconds=int(e))
                if how == "us":
                    cv.append(f"{dt.month}/{dt.day}/{dt.year} {dt.hour:02d}:{dt.minute:02d}:{dt.second:02d}")
                elif how == "loose":
                    cv.append(f"{dt.year}-{dt.month}-{dt.day} {dt.hour}:{dt.minute}:{dt.second}")
                elif how == "dmy":
                    cv.append(f"{dt.day} {dt.strftime('%b')} {dt.year} {dt.hour:02d}:{dt.minute:02d}:{dt.second:02d}")
                elif how == "dt64coarse":
                    e_ = int(e)
                    unit = "D" if e_ % 86400 == 0 else "h" if e_ % 3600 == 0 else "m" if e_ % 60 == 0 else "s"
                    cv.append(np.datetime64(dt, unit))
                else:
                    cv.append(dt.isoformat() if how == "iso" else pd.Timestamp(dt) if how == "ts" else np.datetime64(dt, "s"))
            d["tspan"] = tuple(cv)
        if m.get("fspan") is not None:
            d["fspan"] = tuple(m["fspan"])
        if m.get("zspan") is not None:
            d["zspan"] = tuple(m["zspan"])
        out.append(d)
    return out


def build_config(case):
    q = _clim()
    ms = render_members(case["members"])
    if case.get("cfg") == "object":
        c = q.ClimatologyConfig()
        for d in ms:
            c.add(**d)
        return c
    return ms


def check_clim(case, rec):
    x, t, z, members = case["x"], case["t"], case["z"], case["members"]
    n = len(x)
    allowed, counts = model.model_climatology(members, x, t, z)
    multi = any(c >= 2 for c in counts)
    on_v = any(not model.miss(v) and any(v in (sp or []) for m in members for sp in (m["vspan"], m.get("fspan")))
               for v in x)
    on_t = any((not m.get("period")) and ti in m["tspan"] for m in members for ti in t)
    iso_edge = any(model.period_value(ti, "week") in (52, 53, 1) for ti in t) and any(
        m.get("period") in ("week", "weekofyear") for m in members)
    zmiss = any(model.miss(zi) for zi in z) and any(m.get("zspan") is not None for m in members)
    labels = [lab for lab, on in (("multi_match", multi), ("value_on_bound", on_v), ("time_on_tspan_end", on_t),
                                  ("iso_week_edge", iso_edge), ("depth_missing_with_zspan", zmiss),
                                  ("has_periodic", any(m.get("period") for m in members)),
                                  ("no_members", not members), ("value_missing", any(model.miss(v) for v in x))) if on]
    if any(float(v) != int(v) for v in t):
        labels.append("subsecond_times")
    forms = sorted({m.get("tspan_as") for m in members if not m.get("period")} - {None, "iso", "ts", "dt64"})
    labels += [f"tspan_as={f}" for f in forms]
    rec.note(n > 0 and (multi or on_v or on_t or iso_edge or zmiss), labels)
    tt = np.array(t, dtype="int64") if case["tc"] == "epoch" else (epoch32(t) if case["tc"] == "epoch32" else tarr(t))
    if any(float(v) != int(v) for v in t):
        from .. import carriers
        tt = carriers.time(t, "dt64ns")
    site = "qartod.climatology_test"
    cfg = rec.call(site + "(config)", build_config, case)
    if cfg is SKIP:
        return
    got = flags(rec, site, rec.call(site, _clim().climatology_test, cfg, carr(case, x), tt, carr(case, z)), n)
    if got is SKIP:
        return
    for i, (g, a) in enumerate(zip(got, allowed)):
        if g not in a:
            zi = z[i]
            tm = [m for m in members if model.clim_time_matches(m, t[i])]
            rec.fail(site, f"index {i}: got flag {g}, property allows {sorted(a)}", expected=[sorted(s) for s in allowed],
                     got=got, index=i, got_flag=g, allowed=sorted(a), value_missing=model.miss(x[i]),
                     depth_missing=model.miss(zi),
                     time_matching_has_zspan=any(m.get("zspan") is not None for m in tm),
                     time_matching_has_period=any(m.get("period") for m in tm))


# ---- exhaustive calendar sweep -----------------------------------------------------------------
DAY0 = epoch(2018, 12, 24)
NDAYS = (epoch(2022, 1, 7) - DAY0) // 86400 + 1


def enum_chunks(tier):
    if tier == "quick":
        return [{"period": p, "stride": 1, "lo_only": True} for p in PERIODS]
    return [{"period": p, "stride": 1, "lo_only": False} for p in PERIODS]


def enum_cases(chunk):
    p = chunk["period"]
    lo, hi = PRANGE[p]
    days = [DAY0 + 86400 * k for k in range(NDAYS)]
    vals = sorted({model.period_value(d, p) for d in days})
    spans = []
    if chunk["lo_only"]:
        spans = [(v, v) for v in vals[::max(1, len(vals) // 12)]] + [(vals[0], vals[-1])]
    else:
        spans = [(v, v) for v in vals] + [(vals[0], vals[len(vals) // 2]), (vals[len(vals) // 2], vals[-1])]
    B = 60
    for a, b in spans:
        for k in range(0, len(days), B):
            ts = days[k:k + B]
            yield {"x": [1.0] * len(ts), "t": ts, "z": [5.0] * len(ts),
                   "members": [{"period": p, "tspan": [a, b], "vspan": [0.0, 2.0], "fspan": None, "zspan": None}],
                   "tc": "dt64", "cfg": "dicts"}


SUBS = [Sub("climatology", lambda tier: gen.with_carrier(clim_case(tier)), check_clim, quick=6000, thorough=60000)]
ENUMS = [Enum("calendar_days", enum_chunks, enum_cases, check_clim,
              describe="every calendar day 2018-12-24..2022-01-07 against single periodic members (each period kind; "
                       "every single value of the period in the thorough tier, a 1/12 subsample in quick)",
              tiers=("quick", "thorough"))]
REQUIRED_CLASSES = ["climatology:multi_match", "climatology:value_on_bound", "climatology:time_on_tspan_end",
                    "climatology:iso_week_edge", "climatology:depth_missing_with_zspan"]
