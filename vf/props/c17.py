"""C17 - flags ignore value/time offsets and depend only on the local neighbourhood."""
from __future__ import annotations

import copy

from hypothesis import strategies as st

from .. import gen, model
from ..carriers import CANON
from ..core import SKIP, Sub
from ..tests import REG, any_case, times_of
from ..util import flags

ID = "C17"
RULE = ("base cases from the per-test generators (dyadic values). relations: (a) add a dyadic constant |c|<=1024 to all "
        "values: spike, rate_of_change, flat_line, attenuated, density; (b) negate: spike, rate_of_change, flat_line, "
        "attenuated; (c) shift all times by a constant in +-1e9 s (across the epoch; whole seconds, and for rate / attenuated / speed also sub-second axes with fractional shifts): rate_of_change, flat_line, "
        "attenuated, speed, climatology with absolute members (spans shifted too), datetime valid_range (bounds shifted "
        "too); (d) shift data and spans together: gross_range, valid_range; (e) reverse: spike flags reverse; (f) change one "
        "observation (other value, present<->missing) at every kind of position: flags may change only inside the test's "
        "neighbourhood ({p}: range, climatology, bbox-only location; {p-1,p,p+1}: spike, density; {p,p+1}: rate, speed, hop "
        "distance; {p..p+max(k_s,k_f)}: flat_line; windows containing t_p: windowed attenuated). oracle: equality of the "
        "flag arrays (a-e) / equality outside the neighbourhood (f). non-trivial: the baseline run has >=2 distinct flags; "
        "for (f) additionally the perturbation changes >=1 flag")
ASSUMPTIONS = ["all transformations are exact on the dyadic grid",
               "attenuated std is not offset-exact (online variance): cases with a spread within 1e-4 of a threshold in either run are skipped (counted)"]
Q = 0.125
OFFSET = ["spike", "roc", "flat_line", "attenuated", "density"]
NEGATE = ["spike", "roc", "flat_line", "attenuated"]
TSHIFT = ["roc", "flat_line", "attenuated", "speed", "climatology", "valid_range"]
JOINT = ["gross_range", "valid_range"]
LOCAL = ["gross_range", "valid_range", "climatology", "location", "spike", "density", "roc", "speed", "flat_line", "attenuated"]


def obs_key(name):
    return {"density": "rho"}.get(name, "x")


def run(rec, name, case, tag, carrier=None):
    t = REG()[name]
    C = CANON
    if carrier and name != "valid_range":
        # the same carrier (and the same junk under its masks) on both sides of the relation: what is hidden under a mask
        # is not data, so it neither shifts nor negates with the data
        from ..carriers import Carrier
        C = Carrier(data=carrier[0], junk=carrier[1])
    args, kwargs = t.build(case, C)
    return flags(rec, name, rec.call(name, t.func(), *args, **kwargs), t.n(case), relation=tag, test=name)


def ambiguous(name, *cases):
    if name == "attenuated":
        from ..tests import m_att
        return any(m_att(c) is None for c in cases)
    if name == "roc":
        from ..tests import m_roc
        return any(m_roc(c) is None for c in cases)
    return False


def add_const(xs, c):
    return [v if model.miss(v) else v + c for v in xs]


# ---- (a)-(e) ----------------------------------------------------------------------------------
@st.composite
def relation_case(draw, tier="quick"):
    rel = draw(st.sampled_from(["offset", "offset", "negate", "tshift", "tshift", "joint", "reverse"]))
    names = {"offset": OFFSET, "negate": NEGATE, "tshift": TSHIFT, "joint": JOINT, "reverse": ["spike"]}[rel]
    tc = draw(any_case(tier, names))
    name, case = tc["test"], tc["case"]
    out = {"rel": rel, "test": name, "case": case}
    if rel in ("offset", "joint"):
        out["c"] = draw(st.one_of(gen.dyadic(3, -1024, 1024), st.sampled_from([1024.0, -1024.0, Q, 1e3])))
        if draw(st.integers(0, 3)) == 0 and not (name == "attenuated" and case.get("check") != "range"):
            # large magnitudes: still exact on the dyadic grid, but tolerances that grow with the magnitude are not
            out["c"] = draw(st.sampled_from([2.0 ** 17, -(2.0 ** 17), 2.0 ** 22, 2.0 ** 30, -(2.0 ** 30)]))
            out["large"] = True
        if name == "valid_range" and case["kind"] == "dt":
            out["c"] = int(draw(st.integers(-10 ** 9, 10 ** 9)))
    if draw(st.integers(0, 2)) == 0 or (rel == "joint" and name == "gross_range" and draw(st.booleans())):
        out["carrier"] = [draw(st.sampled_from(["masked_junk", "masked_junk", "masked_mixed", "masked_nan", "list_none", "series"])),
                          draw(st.sampled_from([0.0, 1.0, -9999.0, 12.125, 1e20]))]
    if out.get("carrier") and rel == "joint" and name == "gross_range" and draw(st.booleans()):
        # what hides under the masks lies inside the spans before the shift (and, not being data, stays where it is)
        out["carrier"][1] = (case["fail"][0] + case["fail"][1]) / 2
        if not any(model.miss(v) for v in case["x"]) and case["x"]:
            case["x"][draw(st.integers(0, len(case["x"]) - 1))] = None
    if rel == "tshift":
        out["k"] = draw(st.one_of(st.integers(-10 ** 9, 10 ** 9), st.sampled_from([1, -1, 86400, -1577836800, 31536000])))
        if name == "valid_range":
            case["kind"] = "dt"
            case["x"] = [None if v is None else int(v) for v in case["x"]]
            case["lo"] = None if case["lo"] is None else int(case["lo"])
            case["hi"] = None if case["hi"] is None else int(case["hi"])
        if name == "climatology":
            case["members"] = [m for m in case["members"] if not m.get("period")]
        if name in ("roc", "attenuated", "speed") and draw(st.integers(0, 2)) == 0:
            # sub-second instants and a shift that is not a whole number of seconds: elapsed times must not depend on
            # where the fractional parts fall
            shifted_t = [v + draw(st.sampled_from([0.0, 0.125, 0.5, 0.75, 0.875])) for v in case["t"]]
            if all(b_ > a_ for a_, b_ in zip(shifted_t, shifted_t[1:])):
                # (an axis that already has sub-second instants and one-second steps could lose its order)
                case["t"] = shifted_t
            out["k"] = out["k"] + draw(st.sampled_from([0.5, 0.125, 0.875, 0.25]))
            out["subsecond"] = True
    return out


def transform(out):
    rel, name = out["rel"], out["test"]
    c2 = copy.deepcopy(out["case"])
    key = obs_key(name)
    if rel == "offset":
        c2[key] = add_const(c2[key], out["c"])
    elif rel == "negate":
        c2[key] = [v if model.miss(v) else -v for v in c2[key]]
    elif rel == "reverse":
        c2[key] = c2[key][::-1]
    elif rel == "joint":
        c = out["c"]
        c2["x"] = add_const(c2["x"], c)
        if name == "gross_range":
            c2["fail"] = [v + c for v in c2["fail"]]
            if c2["suspect"] is not None:
                c2["suspect"] = [v + c for v in c2["suspect"]]
        else:
            c2["lo"] = None if c2["lo"] is None else c2["lo"] + c
            c2["hi"] = None if c2["hi"] is None else c2["hi"] + c
    elif rel == "tshift":
        k = out["k"]
        if name == "flat_line":
            c2["t0"] += k
        elif name == "valid_range":
            c2["x"] = add_const(c2["x"], k)
            c2["lo"] = None if c2["lo"] is None else c2["lo"] + k
            c2["hi"] = None if c2["hi"] is None else c2["hi"] + k
        else:
            c2["t"] = [v + k for v in c2["t"]]
            if name == "climatology":
                for m in c2["members"]:
                    m["tspan"] = [v + k for v in m["tspan"]]
    return c2


def check_relation(out, rec):
    name, rel = out["test"], out["rel"]
    base, other = out["case"], transform(out)
    if ambiguous(name, base, other):
        rec.skip("spread_or_rate_near_threshold")
        return
    car = out.get("carrier")
    r1 = run(rec, name, base, rel, car)
    if r1 is SKIP:
        return
    rec.note(len(set(r1)) >= 2, [f"rel={rel}", f"{rel}:{name}"] + ([f"carrier={car[0]}"] if car else []) + (["two_distinct_flags"] if len(set(r1)) >= 2 else []) +
             (["subsecond_shift"] if out.get("subsecond") else []) + (["large_offset"] if out.get("large") else []))
    r2 = run(rec, name, other, rel, car)
    if r2 is SKIP:
        return
    want = r1[::-1] if rel == "reverse" else r1
    if r2 != want:
        i = next(i for i, (a, b) in enumerate(zip(want, r2)) if a != b)
        rec.fail(name, f"relation {rel}: flags differ at index {i} ({want[i]} -> {r2[i]})", expected=want, got=r2, index=i,
                 relation=rel, test=name)


# ---- (f) locality -----------------------------------------------------------------------------
@st.composite
def local_case(draw, tier="quick"):
    tc = draw(any_case(tier, LOCAL))
    name, case = tc["test"], tc["case"]
    t = REG()[name]
    n = t.n(case)
    if n == 0:
        return {"test": name, "case": case, "p": 0, "key": t.obs[0], "new": None}
    if name == "climatology":
        case["members"] = case["members"]
    keys = list(t.obs) + list(t.aux)
    key = draw(st.sampled_from(keys))
    p = draw(st.one_of(st.integers(0, n - 1), st.sampled_from([0, n - 1, n // 2])))
    old = case[key][p]
    if model.miss(old):
        new = draw(gen.dyadic(3, -16, 16))
    else:
        new = draw(st.one_of(st.none(), gen.dyadic(3, -16, 16), st.just(old + Q), st.just(old - 8.0), st.just(-old)))
    if key == "lat" and new is not None:
        new = max(-90.0, min(90.0, new))
    if name == "valid_range" and case["kind"] == "dt" and new is not None:
        new = int(new)
    return {"test": name, "case": case, "p": p, "key": key, "new": new}


def neighbourhood(name, case, p, n):
    if name in ("gross_range", "valid_range", "climatology"):
        return {p}
    if name == "location":
        return {p} if case.get("range_max") is None else {p, p + 1}
    if name in ("spike", "density"):
        return {p - 1, p, p + 1}
    if name in ("roc", "speed"):
        return {p, p + 1}
    if name == "flat_line":
        from .c11 import kof
        k = max(kof(case["suspect"], case["D"]), kof(case["fail"], case["D"]))
        return set(range(p, p + k + 1))
    if name == "attenuated":
        P = case.get("period")
        if not P:
            return None
        t = case["t"]
        return {j for j in range(n) if t[j] - P < t[p] <= t[j]}
    raise ValueError(name)


def check_local(out, rec):
    name, case, p, key = out["test"], out["case"], out["p"], out["key"]
    t = REG()[name]
    n = t.n(case)
    if n == 0:
        rec.note(False, ["empty"])
        return
    hood = neighbourhood(name, case, p, n)
    if hood is None:
        rec.skip("no_window_attenuated_is_global")
        return
    other = copy.deepcopy(case)
    other[key][p] = out["new"]
    if name == "flat_line" and n < 3:
        pass
    if ambiguous(name, case, other):
        rec.skip("spread_or_rate_near_threshold")
        return
    r1 = run(rec, name, case, "locality")
    if r1 is SKIP:
        return
    r2 = run(rec, name, other, "locality")
    if r2 is SKIP:
        return
    changed = [i for i in range(n) if r1[i] != r2[i]]
    rec.note(len(set(r1)) >= 2 and bool(changed), [f"local:{name}"] + (["perturbation_changes_flag"] if changed else []) +
             (["to_missing"] if out["new"] is None else []) + (["edge_position"] if p in (0, n - 1) else []))
    bad = [i for i in changed if i not in hood]
    if bad:
        rec.fail(name, f"changing {key}[{p}] changed the flag at index {bad[0]} outside the neighbourhood {sorted(hood)}",
                 expected=r1, got=r2, index=bad[0], relation="locality", test=name)


SUBS = [
    Sub("relations", relation_case, check_relation, quick=6000, thorough=80000),
    Sub("locality", local_case, check_local, quick=6000, thorough=70000),
]
REQUIRED_CLASSES = ["relations:two_distinct_flags", "locality:perturbation_changes_flag"] + \
    [f"relations:offset:{t}" for t in OFFSET] + [f"relations:tshift:{t}" for t in TSHIFT] + [f"locality:local:{t}" for t in LOCAL]


# ---- deterministic sweep: sub-second sampling and fractional time shifts -----------------------------------
def sub_chunks(tier):
    return [{"step8": s} for s in (12, 20, 6, 9)]  # sampling steps of 1.5, 2.5, 0.75, 1.125 s (in 1/8 s)


def sub_cases(chunk):
    step = chunk["step8"] / 8
    n = 8
    for slope in (1.0, 3.0, 0.5):
        x = [i * slope for i in range(n)]
        for phase in (0.0, 0.125, 0.5, 0.875):
            t = [1577836800 + phase + i * step for i in range(n)]
            for shift in (0.5, 0.125, 0.25, 0.875, 1.5):
                # thresholds between the rates that whole-second truncation of the *instants* would produce
                for thr in (slope / (step + 0.5), slope / step * 0.99, slope / max(step - 0.5, 0.25) * 0.99, slope / (int(step) or 1) * 0.99):
                    yield {"rel": "tshift", "test": "roc", "case": {"x": x, "t": t, "thr": thr, "tc": "dt64"}, "k": shift, "subsecond": True}
                yield {"rel": "tshift", "test": "attenuated",
                       "case": {"x": [v % 3 for v in x], "t": t, "check": "range", "period": int(2 * step) + 1, "min_obs": 2, "min_period": None,
                                "suspect": 1.5, "fail": 0.5, "tc": "dt64"}, "k": shift, "subsecond": True}


from ..core import Enum  # noqa: E402
ENUMS = [Enum("subsecond_shift_grid", sub_chunks, sub_cases, check_relation,
              describe="rate_of_change / windowed attenuated on sampling steps of 0.75, 1.125, 1.5 and 2.5 s x 4 sub-second phases x "
                       "5 fractional shifts x thresholds between the rates that a whole-second truncation of the instants would produce",
              tiers=("quick", "thorough"))]
