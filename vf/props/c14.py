"""C14 - location flags follow bounding-box membership and hop distance."""
from __future__ import annotations

from hypothesis import strategies as st

from .. import gen, model
from ..core import SKIP, Enum, Sub
from ..util import carr, arr, compare, flags

ID = "C14"
RULE = ("tracks n=0..20; lon/lat drawn on, one grid step beside and far from the box edges plus free values (lon to +-540 / "
        "lat to +-100 only when range_max is None), independent missing in lon and lat; bbox in {default, generated "
        "4-list/tuple incl. degenerate, whole globe}; range_max in {None, exactly a hop's distance, +-1%, tiny, huge}. "
        "oracle: statement order (FAIL if exactly one coordinate missing or strictly outside the box; else SUSPECT if "
        "geodesic hop from a fully present predecessor > range_max; else GOOD; both missing -> MISSING). Rejections: "
        "lon/lat of different shapes (ValueError), bbox not a 4-sequence (any exception). non-trivial: a position exactly "
        "on a box edge, or a SUSPECT hop at a point that is also FAIL, or a hop adjacent to a partially missing position, "
        "or a lat/lon swap changes a verdict, or a rejection case")
ASSUMPTIONS = ["geographiclib Geodesic.WGS84.Inverse(lat1, lon1, lat2, lon2) is the trusted geodesic distance",
               "latitudes outside [-90,90] are generated only when range_max is None"]
Q = 0.125


def _loc():
    from ioos_qc import qartod
    return qartod.location_test


@st.composite
def loc_case(draw, tier="quick"):
    n = draw(gen.length(20))
    bmode = draw(st.sampled_from(["default", "default", "box", "box", "box", "degenerate", "globe", "wide"]))
    if bmode in ("default", "globe"):
        bbox = [-180.0, -90.0, 180.0, 90.0]
    else:
        x1, x2 = sorted([draw(gen.dyadic(3, -180, 180)), draw(gen.dyadic(3, -180, 180))])
        y1, y2 = sorted([draw(gen.dyadic(3, -90, 90)), draw(gen.dyadic(3, -90, 90))])
        if bmode == "degenerate":
            x2, y2 = x1, y1
        elif draw(st.integers(0, 3)) == 0:
            # an edge exactly on the prime meridian / equator (0 is a coordinate like any other)
            which = draw(st.sampled_from(["x1", "x2", "y1", "y2", "x1y1", "x2y2"]))
            if "x1" in which and x2 >= 0:
                x1 = 0.0
            if "x2" in which and x1 <= 0:
                x2 = 0.0
            if "y1" in which and y2 >= 0:
                y1 = 0.0
            if "y2" in which and y1 <= 0:
                y2 = 0.0
        bbox = [x1, y1, x2, y2]
    if bmode == "wide":
        # a box written in the 0..360 longitude convention, or simply wider than the globe
        bbox = draw(st.sampled_from([[0.0, -90.0, 360.0, 90.0], [190.0, 15.0, 210.0, 25.0], [-200.0, -95.0, 200.0, 95.0],
                                     [170.0, -10.0, 190.0, 10.0], [-360.0, -90.0, 0.0, 90.0]]))
    use_range = draw(st.booleans()) and bmode != "wide"
    lo_lim, la_lim = (180, 90) if use_range else (540, 100)
    lon_s = st.one_of(gen.near([bbox[0], bbox[2]], Q, 8.0), gen.dyadic(3, -lo_lim, lo_lim))
    lat_s = st.one_of(gen.near([bbox[1], bbox[3]], Q, 8.0), gen.dyadic(3, -la_lim, la_lim))
    lon, lat = [], []
    for i in range(n):
        how = draw(st.sampled_from(["free", "free", "near", "same", "meridional", "zonal"])) if i else "free"
        if how == "free":
            lo, la = draw(lon_s), draw(lat_s)
        elif how == "same":
            lo, la = lon[-1], lat[-1]
        elif how == "meridional":
            # due north / south: metres per degree of latitude vary by 1 % between equator and poles
            lo, la = lon[-1], lat[-1] + draw(st.integers(-16, 16)) / 8
        elif how == "zonal":
            lo, la = lon[-1] + draw(st.integers(-16, 16)) / 8, lat[-1]
        else:
            lo = lon[-1] + draw(st.integers(-64, 64)) / 1024
            la = lat[-1] + draw(st.integers(-64, 64)) / 1024
        lon.append(max(-lo_lim, min(lo_lim, lo)))
        lat.append(max(-la_lim, min(la_lim, la)))
    lon = draw(gen.overlay_missing(lon))
    lat = draw(gen.overlay_missing(lat))
    if draw(st.booleans()):
        for i in range(n):
            if model.miss(lon[i]) and draw(st.booleans()):
                lat[i] = None
    rm = None
    if use_range:
        hops = [model.geodesic(lat[i - 1], lon[i - 1], lat[i], lon[i]) for i in range(1, n)
                if not any(model.miss(v) for v in (lon[i], lat[i], lon[i - 1], lat[i - 1]))]
        ch = [st.sampled_from([0.0, 1.0, 1e3, 1e5, 1e7, 3e7])]
        if hops:
            h = draw(st.sampled_from(hops))
            ch += [st.just(h), st.just(h), st.just(h * 0.99), st.just(h * 1.01)]
            # just below / above the longest hop, closer than any spherical approximation of the geodesic is accurate
            hm = max(hops)
            ch += [st.sampled_from([hm * 0.999, hm * 0.998, hm * 0.9965, hm * 1.001, hm * 1.003])]
        rm = draw(st.one_of(*ch))
    return {"lon": lon, "lat": lat, "bbox": None if bmode == "default" else bbox, "range_max": rm,
            "kind": draw(st.sampled_from(["list", "tuple"]))}


def check_loc(case, rec):
    lon, lat, rm = case["lon"], case["lat"], case["range_max"]
    bbox = case["bbox"] or [-180.0, -90.0, 180.0, 90.0]
    n = len(lon)
    allowed = model.model_location(lon, lat, bbox, rm)
    on_edge = any((not model.miss(a) and a in (bbox[0], bbox[2])) or (not model.miss(b) and b in (bbox[1], bbox[3]))
                  for a, b in zip(lon, lat))
    sus_no_box = model.model_location(lon, lat, [-1e9, -1e9, 1e9, 1e9], rm) if rm is not None else None
    both = rm is not None and any(a == {model.F} and b == {model.S} for a, b in zip(allowed, sus_no_box))
    partial_adj = rm is not None and any(
        (model.miss(lon[i - 1]) != model.miss(lat[i - 1])) and not model.miss(lon[i]) and not model.miss(lat[i])
        for i in range(1, n))
    swap = False
    if rm is not None and all(model.miss(v) or abs(v) <= 90 for v in lon):
        swap = any(a != b for a, b in zip(model.model_location(lat, lon, [-1e9, -1e9, 1e9, 1e9], rm), sus_no_box))
    hop_on = False
    if rm is not None:
        hop_on = any(not any(model.miss(v) for v in (lon[i], lat[i], lon[i - 1], lat[i - 1])) and
                     model.geodesic(lat[i - 1], lon[i - 1], lat[i], lon[i]) == rm for i in range(1, n))
    labels = [lab for lab, on in (("on_box_edge", on_edge), ("suspect_hop_at_fail_point", both),
                                  ("hop_next_to_partial", partial_adj), ("latlon_swap_matters", swap),
                                  ("hop_on_range_max", hop_on), ("default_box", case["bbox"] is None),
                                  ("box_edge_zero", case["bbox"] is not None and 0.0 in case["bbox"]),
                                  ("box_beyond_globe", case["bbox"] is not None and (abs(case["bbox"][0]) > 180 or abs(case["bbox"][2]) > 180)),
                                  ("range_max", rm is not None),
                                  ("partial_position", any(model.miss(a) != model.miss(b) for a, b in zip(lon, lat))),
                                  ("missing_position", any(model.miss(a) and model.miss(b) for a, b in zip(lon, lat)))) if on]
    rec.note(on_edge or both or partial_adj or swap or bool(case.get("grid")), labels + (["hop_threshold_grid"] if case.get("grid") else []))
    kw = {}
    if case["bbox"] is not None:
        kw["bbox"] = tuple(bbox) if case["kind"] == "tuple" else list(bbox)
    if rm is not None:
        kw["range_max"] = rm
    site = "qartod.location_test"
    got = flags(rec, site, rec.call(site, _loc(), carr(case, lon), carr(case, lat), **kw), n)
    if got is SKIP:
        return
    compare(rec, site, got, allowed)


@st.composite
def reject_case(draw, tier="quick"):
    what = draw(st.sampled_from(["shape", "shape2d", "bbox_len", "bbox_type"]))
    n = draw(st.integers(0, 6))
    lon = draw(st.lists(gen.dyadic(3, -180, 180), min_size=n, max_size=n))
    m = n
    bbox = [-180.0, -90.0, 180.0, 90.0]
    if what == "shape":
        m = draw(st.integers(0, 7).filter(lambda v: v != n))
    elif what == "bbox_len":
        k = draw(st.sampled_from([0, 1, 2, 3, 5, 6]))
        bbox = draw(st.lists(gen.dyadic(3, -90, 90), min_size=k, max_size=k))
    else:
        bbox = draw(st.sampled_from(["-180,-90,180,90", 5, {"minx": 0}]))
    lat = draw(st.lists(gen.dyadic(3, -90, 90), min_size=m, max_size=m))
    out = {"what": what, "lon": lon, "lat": lat, "bbox": bbox}
    if what == "shape2d":
        # same number of elements, different shapes
        a, b = draw(st.sampled_from([(2, 3), (1, 4), (3, 2), (2, 2), (1, 1), (4, 1)]))
        out["lon"] = draw(st.lists(gen.dyadic(3, -180, 180), min_size=a * b, max_size=a * b))
        out["lat"] = draw(st.lists(gen.dyadic(3, -90, 90), min_size=a * b, max_size=a * b))
        out["lon_shape"] = [a, b]
        out["lat_shape"] = draw(st.sampled_from([s for s in ([b, a], [a * b], [1, a * b], [a * b, 1]) if s != [a, b]]))
    return out


def check_reject(case, rec):
    rec.note(True, [case["what"]])
    if case["what"] == "shape2d":
        import numpy as np
        rec.expect_raises("qartod.location_test(shape mismatch)", (ValueError,), _loc(),
                          np.array(case["lon"], dtype="float64").reshape(case["lon_shape"]),
                          np.array(case["lat"], dtype="float64").reshape(case["lat_shape"]))
    elif case["what"] == "shape":
        rec.expect_raises("qartod.location_test(shape mismatch)", (ValueError,), _loc(), arr(case["lon"]), arr(case["lat"]))
    else:
        rec.expect_raises("qartod.location_test(bad bbox)", (Exception,), _loc(), arr(case["lon"]), arr(case["lat"]),
                          bbox=case["bbox"])


SUBS = [
    Sub("location", lambda tier: gen.with_carrier(loc_case(tier)), check_loc, quick=5000, thorough=60000),
    Sub("location_reject", reject_case, check_reject, quick=300, thorough=3000, quick_shards=1),
]
# ---- deterministic sweep: range_max a fraction of a percent below / above one hop ---------------------------------
def hop_chunks(tier):
    return [{"lat0": la} for la in (-85.0, -60.0, -30.0, -2.0, 0.0, 2.0, 30.0, 48.0, 60.0, 75.0, 88.0)]


def hop_cases(chunk):
    la0 = chunk["lat0"]
    for lo0 in (-179.5, -70.0, 0.0, 179.5):
        for dla, dlo in ((1.0, 0.0), (-0.5, 0.0), (0.0, 1.0), (0.0, -0.5), (0.25, 0.25), (0.125, -1.0), (2.0, 0.0), (0.0, 2.0)):
            la1 = la0 + dla
            if abs(la1) > 90:
                continue
            lo1 = lo0 + dlo
            h = model.geodesic(la0, lo0, la1, lo1)
            for eps in (-0.004, -0.003, -0.002, -0.001, 0.001, 0.003):
                # a short quiet track before and after the hop
                lon = [lo0, lo0, lo1, lo1]
                lat = [la0, la0, la1, la1]
                yield {"lon": lon, "lat": lat, "bbox": None, "range_max": h * (1 + eps), "kind": "list", "grid": True}


ENUMS = [Enum("hop_threshold_grid", hop_chunks, hop_cases, check_loc,
              describe="two-fix hops (due north/south, due east/west, diagonal; 11 latitudes x 4 longitudes incl. the antimeridian) "
                       "with range_max 0.1-0.4 % below and 0.1-0.3 % above the WGS84 geodesic length of the hop",
              tiers=("quick", "thorough"))]
REQUIRED_CLASSES = ["location:on_box_edge", "location:suspect_hop_at_fail_point", "location:hop_next_to_partial",
                    "location:latlon_swap_matters", "location:hop_on_range_max", "location:missing_position"]
