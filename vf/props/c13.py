"""C13 - profile tests flag both points of an inverted pair, in either cast direction."""
from __future__ import annotations

from hypothesis import strategies as st

from .. import gen, model
from ..core import SKIP, Sub
from ..util import carr, arr, compare, flags

ID = "C13"
RULE = ("density_inversion_test: profiles n=0..25 with depth sequences down/up/down-up/stationary/repeated on a dyadic "
        "grid, density increments drawn on, one grid step below and above each threshold, independent missing in density "
        "and depth, thresholds (suspect, fail) in {absent, <=0, >0} incl. one absent and fail>suspect; oracle = pairwise "
        "model (delta = sign(dz)*drho, both points of a pair flagged, worst over a point's pairs, missing -> that point and "
        "the next MISSING, n=1 UNKNOWN) + mirror relation f(reverse)=reverse(f) when nothing is missing. "
        "pressure_increasing_test: dyadic pressures n=0..25, monotone/non-monotone/repeats, list or array; oracle = "
        "direction sign(last-first), SUSPECT iff direction*(p[i]-p[i-1])<=0. non-trivial: some delta within one grid step "
        "of a threshold, or a constant-depth pair, or a point shared by a SUSPECT and a FAIL pair, or an up-cast; for "
        "pressure: a repeat or a reversal present")
ASSUMPTIONS = ["pressure profiles whose mean step is exactly 0 are not judged (direction undefined; counted)",
               "dyadic grid: increments and thresholds compare exactly"]
Q = 0.125


def _di():
    from ioos_qc import qartod
    return qartod.density_inversion_test


def _pi():
    from ioos_qc import argo
    return argo.pressure_increasing_test


thr_s = st.one_of(st.none(), st.sampled_from([0.0, -Q, -2 * Q, -1.0, Q, 1.0]), gen.dyadic(3, -4, 4))


@st.composite
def density_case(draw, tier="quick"):
    n = draw(gen.length(25))
    s, f = draw(thr_s), draw(thr_s)
    shape = draw(st.sampled_from(["down", "up", "downup", "stationary", "repeat", "free"]))
    z = []
    cur = draw(gen.dyadic(3, 0, 64))
    for i in range(n):
        z.append(cur)
        if shape == "down":
            cur += draw(gen.pos_dyadic(3, 4))
        elif shape == "up":
            cur -= draw(gen.pos_dyadic(3, 4))
        elif shape == "downup":
            cur += draw(gen.pos_dyadic(3, 4)) * (1 if i < n // 2 else -1)
        elif shape == "stationary":
            pass
        elif shape == "repeat":
            cur += draw(st.sampled_from([0.0, 0.0, Q, 1.0, -Q]))
        else:
            cur += draw(gen.dyadic(3, -4, 4))
    thr_pts = [t for t in (s, f) if t is not None]
    incs = [st.sampled_from([0.0, Q, -Q, 1.0]), gen.dyadic(3, -4, 4)]
    if thr_pts:
        incs.append(st.sampled_from([t + d for t in thr_pts for d in (-Q, 0.0, Q)]))
    rho = []
    cur = draw(gen.dyadic(3, 0, 32))
    for i in range(n):
        rho.append(cur)
        if i + 1 < n:
            dz = z[i + 1] - z[i]
            sgn = (dz > 0) - (dz < 0)
            inc = draw(st.one_of(*incs))
            cur += inc * (sgn if sgn else 1)
    # deep / high-pressure profiles: finely spaced depths (or densities) of large magnitude
    zoff, roff = abs(draw(gen.big_offset)), abs(draw(gen.big_offset))
    z, rho = gen.shifted(z, zoff), gen.shifted(rho, roff)
    rho = draw(gen.overlay_missing(rho))
    z = draw(gen.overlay_missing(z))
    return {"rho": rho, "z": z, "suspect": s, "fail": f, "zoff": zoff, "roff": roff}


def deltas(rho, z):
    out = []
    for i in range(len(rho) - 1):
        if any(model.miss(v) for v in (rho[i], z[i], rho[i + 1], z[i + 1])):
            out.append(None)
            continue
        dz = z[i + 1] - z[i]
        out.append(((dz > 0) - (dz < 0)) * (rho[i + 1] - rho[i]))
    return out


def check_density(case, rec):
    rho, z, s, f = case["rho"], case["z"], case["suspect"], case["fail"]
    n = len(rho)
    ds = deltas(rho, z)
    near = any(d is not None and t is not None and abs(d - t) <= Q for d in ds for t in (s, f))
    const = any(not model.miss(a) and not model.miss(b) and a == b for a, b in zip(z, z[1:]))
    up = any(not model.miss(a) and not model.miss(b) and b < a for a, b in zip(z, z[1:]))

    def sev(d):
        if d is None:
            return 0
        if f is not None and d < f:
            return 2
        if s is not None and d < s:
            return 1
        return 0
    shared = any({sev(a), sev(b)} == {1, 2} for a, b in zip(ds, ds[1:]))
    labels = [lab for lab, on in (("delta_near_threshold", near), ("constant_depth_pair", const), ("upcast", up),
                                  ("shared_suspect_fail", shared), ("one_threshold_absent", (s is None) != (f is None)),
                                  ("fail_gt_suspect", s is not None and f is not None and f > s),
                                  ("has_missing", any(model.miss(v) for v in rho + z)),
                                  ("large_magnitude", bool(case.get("zoff") or case.get("roff")))) if on]
    rec.note(n >= 2 and (near or const or shared or up), labels)
    kw = {}
    if s is not None:
        kw["suspect_threshold"] = s
    if f is not None:
        kw["fail_threshold"] = f
    site = "qartod.density_inversion_test"
    got = flags(rec, site, rec.call(site, _di(), carr(case, rho), carr(case, z), **kw), n)
    if got is SKIP:
        return
    compare(rec, site, got, model.model_density(rho, z, s, f))
    if not any(model.miss(v) for v in rho + z):
        rev = flags(rec, site, rec.call(site, _di(), arr(rho[::-1]), arr(z[::-1]), **kw), n, law="mirror")
        if rev is not SKIP and rev[::-1] != got:
            rec.fail(site, "mirror: flags of the reversed profile are not the reversed flags", expected=got, got=rev[::-1],
                     law="mirror")


@st.composite
def pressure_case(draw, tier="quick"):
    n = draw(gen.length(25))
    shape = draw(st.sampled_from(["down", "up", "mixed", "repeat", "free"]))
    p = []
    cur = draw(gen.dyadic(3, 0, 64))
    for i in range(n):
        p.append(cur)
        if shape == "down":
            cur += draw(gen.pos_dyadic(3, 4))
        elif shape == "up":
            cur -= draw(gen.pos_dyadic(3, 4))
        elif shape == "repeat":
            cur += draw(st.sampled_from([0.0, Q, 1.0, -Q]))
        elif shape == "mixed":
            cur += draw(gen.pos_dyadic(3, 4)) * draw(st.sampled_from([1, 1, 1, -1, 0]))
        else:
            cur += draw(gen.dyadic(3, -4, 4))
    carrier = draw(st.sampled_from(["array", "list", "list", "uint", "int16", "masked", "series"]))
    if carrier in ("uint", "int16"):
        # raw counts: whole numbers (unsigned: non-negative) - differences of unsigned integers wrap unless widened
        p = [float(abs(round(v))) for v in p]
    if carrier in ("list", "masked", "array", "series") and draw(st.integers(0, 2)) == 0:
        p = draw(gen.overlay_missing(p, markers=st.just(None)))
    return {"p": p, "carrier": carrier, "junk": draw(st.sampled_from([0.0, 999.0, -999.0, 9.96921e36]))}


def check_pressure(case, rec):
    p = case["p"]
    n = len(p)
    allowed = model.model_pressure(p)
    site = "argo.pressure_increasing_test"
    from .. import carriers
    kind = {"array": "f64", "list": "list_none", "uint": "uint", "int16": "int16", "masked": "masked_junk", "series": "series"}[case.get("carrier", "array")]
    if not carriers.data_applicable(kind, p):
        kind = "f64"
    inp = carriers.data(p, kind, case.get("junk", 0.0))
    got = flags(rec, site, rec.call(site, _pi(), inp), n)
    if allowed is None:
        rec.skip("zero_mean_step")
        return
    steps = [b - a for a, b in zip(p, p[1:]) if not model.miss(a) and not model.miss(b)]
    rep = any(d == 0 for d in steps)
    rev = any(d > 0 for d in steps) and any(d < 0 for d in steps)
    labels = [lab for lab, on in (("repeat", rep), ("reversal", rev), ("upcast", sum(steps) < 0),
                                  ("has_missing", any(model.miss(v) for v in p))) if on] + [f"carrier={kind}"]
    rec.note(rep or rev, labels)
    if got is SKIP:
        return
    compare(rec, site, got, allowed)


SUBS = [
    Sub("density", lambda tier: gen.with_carrier(density_case(tier)), check_density, quick=8000, thorough=80000),
    Sub("pressure", pressure_case, check_pressure, quick=2500, thorough=40000),
]
REQUIRED_CLASSES = ["density:delta_near_threshold", "density:constant_depth_pair", "density:upcast",
                    "density:shared_suspect_fail", "density:one_threshold_absent", "pressure:repeat", "pressure:reversal",
                    "pressure:upcast"]
