"""C10 - rate tests flag a point by its change from the previous point per elapsed second."""
from __future__ import annotations

from fractions import Fraction

import numpy as np
from hypothesis import strategies as st

from .. import gen, model
from ..core import SKIP, Sub
from ..util import carr, NAN, arr, compare, flags, tarr, epoch32

ID = "C10"
RULE = ("rate_of_change_test: dyadic series with missing on strictly increasing whole-second axes (regular/irregular, 1 s.."
        "90000 s steps, datetime64 or epoch seconds); threshold = dyadic, or set so that one pair's |dx|/dt equals it "
        "exactly (pair rebuilt as x[i-1] +- thr*dt), or that +- one grid step; oracle = exact Fraction arithmetic. "
        "speed_test: tracks of 1..15 positions (antimeridian neighbours, zero-length hops, independent missing lon/lat), "
        "thresholds on / 1% below / 1% above a hop's speed; oracle = WGS84 geodesic (geographiclib, lat/lon order) / dt. "
        "Mismatched lengths must raise ValueError. non-trivial: irregular spacing with >=1 flagged point, or a rate "
        "exactly on a threshold, or a track whose lat/lon swap changes a verdict, or a mismatched-length case")
ASSUMPTIONS = [
    "geographiclib's Geodesic.WGS84.Inverse is the trusted definition of geodesic distance",
    "a case whose exact quotient differs from the threshold by < 2^-50 relative without being equal is skipped (counted)",
    "speed_test points whose own or previous position is only partly present are not judged",
]
Q = 0.125


def _roc():
    from ioos_qc import qartod
    return qartod.rate_of_change_test


def _speed():
    from ioos_qc import argo
    return argo.speed_test


def times(t, carrier):
    if carrier == "epoch":
        return np.array(t, dtype="int64")
    if carrier == "aware_ny":
        # timezone-aware python datetimes in a zone with daylight saving: elapsed time is between instants, not wall clocks
        from .. import carriers
        return carriers.time(t, "list_datetime_ny")
    if carrier == "epoch32":
        return epoch32(t)
    if carrier == "epoch_list":
        return list(t)
    return tarr(t)


@st.composite
def roc_case(draw, tier="quick"):
    n = draw(gen.length(30 if tier == "quick" else 60))
    x = draw(gen.present_series(n, gen.dyadic(3, -64, 64)))
    t, ds = draw(gen.time_axis(n))
    mode = draw(st.sampled_from(["free", "free", "exact", "exact", "exact_off"]))
    thr = draw(st.one_of(gen.pos_dyadic(3, 8), st.integers(1, 64).map(lambda k: k / 1024),
                         st.integers(1, 64).map(lambda k: k / 65536), st.just(0)))
    if mode != "free" and n >= 2:
        i = draw(st.integers(1, n - 1))
        k = draw(st.integers(1, 16))
        dt = ds[i - 1]
        thr = k / 8 if dt <= 60 else (k / 8) / dt if Fraction(k, 8) / dt == Fraction((k / 8) / dt) else k / 8
        dx = Fraction(thr) * dt
        if dx <= 4096 and dx.denominator <= 8:
            sign = draw(st.sampled_from([1, -1]))
            x[i] = x[i - 1] + sign * float(dx)
            if mode == "exact_off":
                x[i] += sign * draw(st.sampled_from([Q, -Q]))
    x = draw(gen.overlay_missing(x))
    return {"x": x, "t": t, "thr": thr, "tc": draw(st.sampled_from(["dt64", "dt64", "epoch", "epoch_list", "epoch32", "aware_ny"]))}


def roc_rates(x, t):
    out = []
    for i in range(1, len(x)):
        if not model.miss(x[i]) and not model.miss(x[i - 1]):
            out.append(Fraction(abs(Fraction(x[i]) - Fraction(x[i - 1]))) / (t[i] - t[i - 1]))
    return out


def check_roc(case, rec):
    x, t, thr = case["x"], case["t"], case["thr"]
    rates = roc_rates(x, t)
    fthr = Fraction(thr)
    for r in rates:
        if r != fthr and fthr != 0 and abs(r - fthr) < Fraction(1, 2 ** 50) * fthr:
            rec.skip("rate_within_rounding_of_threshold")
            return
    allowed = model.model_roc(x, t, thr)
    irregular = len(set(b - a for a, b in zip(t, t[1:]))) > 1
    flagged = any(a == {model.S} for a in allowed)
    on = any(r == fthr for r in rates)
    labels = []
    if on:
        labels.append("rate_on_threshold")
    if irregular:
        labels.append("irregular")
    if flagged:
        labels.append("some_suspect")
    if any(model.miss(v) for v in x):
        labels.append("has_missing")
    rec.note((irregular and flagged) or on, labels)
    site = "qartod.rate_of_change_test"
    got = flags(rec, site, rec.call(site, _roc(), carr(case, x), times(t, case["tc"]), thr), len(x))
    if got is SKIP:
        return
    compare(rec, site, got, allowed)


@st.composite
def roc_mismatch_case(draw, tier="quick"):
    n = draw(st.integers(0, 8))
    m = draw(st.integers(0, 8).filter(lambda v: v != n))
    x = draw(gen.present_series(n))
    t, _ = draw(gen.time_axis(max(m, 1)))
    return {"x": x, "t": t[:m], "thr": draw(gen.pos_dyadic()), "tc": draw(st.sampled_from(["dt64", "epoch"]))}


def check_roc_mismatch(case, rec):
    rec.note(True, [f"len={len(case['x'])},{len(case['t'])}"])
    rec.expect_raises("qartod.rate_of_change_test(mismatched lengths)", (ValueError,), _roc(), arr(case["x"]),
                      times(case["t"], case["tc"]), case["thr"])


# ---- speed -----------------------------------------------------------------------------------
lon_s = st.one_of(gen.dyadic(3, -180, 180), st.sampled_from([-180.0, 180.0, 179.875, -179.875, 0.0]),
                  st.integers(-180 * 1024, 180 * 1024).map(lambda k: k / 1024))
lat_s = st.one_of(gen.dyadic(3, -90, 90), st.sampled_from([-90.0, 90.0, 89.875, 0.0]),
                  st.integers(-90 * 1024, 90 * 1024).map(lambda k: k / 1024))


@st.composite
def track(draw, n):
    lon, lat = [], []
    for i in range(n):
        how = draw(st.sampled_from(["free", "near", "near", "same", "micro"])) if i else "free"
        if how == "free":
            lon.append(draw(lon_s))
            lat.append(draw(lat_s))
        elif how == "same":
            lon.append(lon[-1])
            lat.append(lat[-1])
        else:
            scale = 1024 if how == "near" else 2 ** 20  # micro: hops of a few decimetres to metres
            dl = draw(st.integers(-64, 64)) / scale
            db = draw(st.integers(-64, 64)) / scale
            lo = lon[-1] + dl
            if lo > 180:
                lo -= 360
            if lo < -180:
                lo += 360
            lon.append(lo)
            lat.append(max(-90.0, min(90.0, lat[-1] + db)))
    return lon, lat


def hop_speeds(lon, lat, t):
    out = []
    for i in range(1, len(lon)):
        if not any(model.miss(v) for v in (lon[i], lat[i], lon[i - 1], lat[i - 1])):
            out.append(model.geodesic(lat[i - 1], lon[i - 1], lat[i], lon[i]) / (t[i] - t[i - 1]))
    return out


@st.composite
def speed_case(draw, tier="quick"):
    n = draw(st.integers(1, 15))
    lon, lat = draw(track(n))
    t, _ = draw(gen.time_axis(n))
    lon = draw(gen.overlay_missing(lon))
    lat = draw(gen.overlay_missing(lat))
    if draw(st.booleans()):
        # align missing so that fully missing positions are common
        for i in range(n):
            if model.miss(lon[i]) and draw(st.booleans()):
                lat[i] = None
    vs = hop_speeds(lon, lat, t)

    def thr():
        ch = [st.floats(0.001, 5000, allow_nan=False), st.sampled_from([0.0, 1.0, 3.0])]
        if vs:
            v = draw(st.sampled_from(vs))
            ch += [st.just(v), st.just(v), st.just(v * 0.99), st.just(v * 1.01)]
        return draw(st.one_of(*ch))
    s, f = thr(), thr()
    if draw(st.booleans()) and f < s:
        s, f = f, s
    return {"lon": lon, "lat": lat, "t": t, "suspect": s, "fail": f,
            "tc": draw(st.sampled_from(["dt64", "dt64", "epoch", "epoch32", "aware_ny"]))}


def check_speed(case, rec):
    lon, lat, t = case["lon"], case["lat"], case["t"]
    s, f = case["suspect"], case["fail"]
    allowed = model.model_speed(lon, lat, t, s, f)
    vs = hop_speeds(lon, lat, t)
    on = any(v in (s, f) for v in vs)
    # would swapping the coordinate order change a verdict?  (lat must stay a legal latitude)
    swap = False
    if all(model.miss(v) or abs(v) <= 90 for v in lon):
        sw = model.model_speed(lat, lon, t, s, f)
        swap = any(a != b for a, b in zip(sw, allowed))
    irregular = len(set(b - a for a, b in zip(t, t[1:]))) > 1
    flagged = any(a in ({model.S}, {model.F}) for a in allowed)
    labels = []
    if on:
        labels.append("speed_on_threshold")
    if swap:
        labels.append("latlon_swap_matters")
    if irregular and flagged:
        labels.append("irregular_flagged")
    if any(model.miss(a) != model.miss(b) for a, b in zip(lon, lat)):
        labels.append("partial_position")
    if any(model.miss(a) and model.miss(b) for a, b in zip(lon, lat)):
        labels.append("missing_position")
    rec.note(on or swap or (irregular and flagged), labels)
    site = "argo.speed_test"
    got = flags(rec, site, rec.call(site, _speed(), carr(case, lon), carr(case, lat), times(t, case["tc"]), s, f), len(lon))
    if got is SKIP:
        return
    compare(rec, site, got, allowed)


@st.composite
def speed_mismatch_case(draw, tier="quick"):
    n = draw(st.integers(0, 6))
    lens = [n, n, n]
    k = draw(st.integers(0, 2))
    lens[k] = draw(st.integers(0, 7).filter(lambda v: v != n))
    if draw(st.booleans()):
        k2 = draw(st.integers(0, 2))
        lens[k2] = draw(st.integers(0, 7))
        if len(set(lens)) == 1:
            lens[k2] += 1
    t, _ = draw(gen.time_axis(max(lens[2], 1)))
    return {"lon": draw(st.lists(gen.dyadic(3, -180, 180), min_size=lens[0], max_size=lens[0])),
            "lat": draw(st.lists(gen.dyadic(3, -90, 90), min_size=lens[1], max_size=lens[1])), "t": t[:lens[2]]}


def check_speed_mismatch(case, rec):
    rec.note(True, ["mismatch"])
    rec.expect_raises("argo.speed_test(mismatched lengths)", (ValueError,), _speed(), arr(case["lon"]), arr(case["lat"]),
                      tarr(case["t"]), 1.0, 3.0)


SUBS = [
    Sub("roc", lambda tier: gen.with_carrier(roc_case(tier)), check_roc, quick=8000, thorough=80000),
    Sub("roc_mismatch", roc_mismatch_case, check_roc_mismatch, quick=400, thorough=5000, quick_shards=1),
    Sub("speed", lambda tier: gen.with_carrier(speed_case(tier)), check_speed, quick=5000, thorough=40000),
    Sub("speed_mismatch", speed_mismatch_case, check_speed_mismatch, quick=300, thorough=3000, quick_shards=1),
]
REQUIRED_CLASSES = ["roc:rate_on_threshold", "roc:irregular", "speed:speed_on_threshold", "speed:latlon_swap_matters",
                    "speed:missing_position"]
