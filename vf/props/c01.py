"""C01 - every QC test is a total, pure map from a series to one valid flag per point."""
from __future__ import annotations

import copy
import math

import numpy as np
from hypothesis import strategies as st

from .. import carriers, model
from ..core import SKIP, Sub, Violation
from ..tests import REG, any_case

ID = "C01"
RULE = ("all 11 test functions (spike x2 methods, attenuated x{std,range}x4 modes, valid_range x{float,datetime64}) x "
        "lengths 0..40 x values that are dyadic or arbitrary finite float64 (|x| up to 1.8e308, subnormals) with NaN / None / "
        "masked elements x valid parameter sets of the per-test properties x carriers {float64 array, list with None, list "
        "with NaN, masked array (NaN or finite junk under the mask), object array}. oracle = validity predicate (no "
        "exception; shape (n,); every flag in {1,2,3,4,9}; nothing masked; every argument object byte-identical before/"
        "after; a second call gives the same flags). Histories: a rule-based state machine interleaves calls of tests on a "
        "pool of fixtures with other stateful corners (limit-expression evaluation, qartod_compare) and requires every "
        "(test, fixture) pair to return what it returned the first time and every fixture to keep its digest. non-trivial: "
        "n<=2, or a missing marker present, or |value|>1e150, or (history) a (test,fixture) pair repeated after >=1 other call")
ASSUMPTIONS = [
    "pressure_increasing_test and valid_range_test get float64 arrays / lists with NaN only (they document no None/mask handling; valid_range needs an ndarray)",
    "time axes are strictly increasing whole seconds; latitudes within [-90,90] when a geodesic distance is needed",
    "warnings are not failures",
]
VALID = {1, 2, 3, 4, 9}
wide = st.floats(allow_nan=False, allow_infinity=False, width=64)
C01_CARRIERS = ["f64", "f64", "list_none", "list_nan", "masked_nan", "masked_junk", "masked_mixed", "masked_int", "masked_fill", "object", "series"]


@st.composite
def c01_case(draw, tier="quick", names=None):
    tc = draw(any_case(tier, names))
    t = REG()[tc["test"]]
    case = tc["case"]
    if draw(st.integers(0, 5)) == 0:
        k = draw(st.integers(0, 2))
        for key in t.obs + t.aux + (("t",) if "t" in case else ()):
            case[key] = case[key][:k]
        tc["truncated"] = k
    if draw(st.booleans()):
        for key in t.obs + t.aux:
            if key in ("lon", "lat") or (tc["test"] == "valid_range" and case["kind"] == "dt"):
                continue
            case[key] = [v if model.miss(v) or draw(st.integers(0, 2)) else draw(wide) for v in case[key]]
        tc["wide"] = True
    if "t" in case and len(case["t"]) >= 2 and draw(st.integers(0, 7)) == 0:
        # repeated time stamps (fast data stamped in whole seconds, several depths at one time): still chronological
        tt = list(case["t"])
        for i in range(1, len(tt)):
            if draw(st.booleans()):
                tt[i] = tt[i - 1]
        case["t"] = tt
        tc["repeated_stamps"] = True
    if tc["test"] in ("pressure", "valid_range"):
        tc["carrier"] = "f64"
        if tc["test"] == "pressure" and draw(st.integers(0, 3)) == 0 and case["p"]:
            i = draw(st.integers(0, len(case["p"]) - 1))
            case["p"][i] = float("nan")
    else:
        tc["carrier"] = draw(st.sampled_from(C01_CARRIERS))
    return tc


def digest(obj):
    """Structural digest of an argument object (NaN-safe)."""
    if isinstance(obj, np.ma.MaskedArray):
        return ("ma", str(obj.dtype), obj.shape, np.ma.getdata(obj).tobytes(), np.ma.getmaskarray(obj).tobytes())
    if isinstance(obj, np.ndarray):
        if obj.dtype == object:
            return ("objarr", obj.shape, tuple(digest(v) for v in obj.tolist()))
        return ("nd", str(obj.dtype), obj.shape, obj.tobytes())
    if isinstance(obj, float):
        return ("f", "nan") if math.isnan(obj) else ("f", obj.hex())
    if isinstance(obj, (list, tuple)):
        return (type(obj).__name__, tuple(digest(v) for v in obj))
    if isinstance(obj, dict):
        return ("dict", tuple((k, digest(v)) for k, v in obj.items()))
    if hasattr(obj, "members") and hasattr(obj, "check"):  # ClimatologyConfig: every attribute, not only the members
        return ("clim", tuple(digest(tuple(m)) for m in obj.members),
                tuple(sorted((k, repr(digest(v))) for k, v in vars(obj).items() if k != "_members")))
    try:
        import pandas as pd
        if isinstance(obj, (pd.Series, pd.Index)):
            return ("pd", str(obj.dtype), digest(obj.to_numpy()), digest(np.asarray(obj.index)) if isinstance(obj, pd.Series) else None)
    except Exception:
        pass
    return ("o", repr(obj))


def nontrivial(tc):
    t = REG()[tc["test"]]
    case = tc["case"]
    n = t.n(case)
    vals = [v for k in t.obs + t.aux for v in case[k]]
    has_missing = any(model.miss(v) for v in vals)
    huge = any((not model.miss(v)) and isinstance(v, (int, float)) and abs(v) > 1e150 for v in vals)
    labels = [f"test={tc['test']}", f"carrier={tc.get('carrier')}"]
    if n <= 2:
        labels.append(f"n={n}")
    if has_missing:
        labels.append("has_missing")
    if huge:
        labels.append("huge_value")
    if tc.get("repeated_stamps"):
        labels.append("repeated_time_stamps")
    return (n <= 2 or has_missing or huge), labels


def validate(rec, site, result, n, **info):
    """The validity predicate on one result. Returns the list of flags, or SKIP."""
    try:
        data = np.ma.getdata(result)
        mask = np.ma.getmaskarray(result)
        shape = np.shape(data)
    except Exception as e:
        rec.fail(site, f"result is not array-like: {e}", got=repr(result)[:200], **info)
        return SKIP
    if shape != (n,):
        rec.fail(site, f"result shape {shape}, input has {n} elements", expected=[n], got=list(shape), bad_shape=True, **info)
        return SKIP
    if bool(np.any(mask)):
        rec.fail(site, "result hides flags behind a mask", got=np.asarray(mask).tolist(), masked_flags=True, **info)
        return SKIP
    vals = np.asarray(data).tolist()
    for i, v in enumerate(vals):
        if not (isinstance(v, (int, float)) and v in VALID):
            rec.fail(site, f"index {i}: {v!r} is not a QARTOD flag", got=vals, index=i, invalid_flag=True, **info)
            return SKIP
    return [int(v) for v in vals]


def run_once(rec, tc, tag="", persistent=None):
    """Build the arguments (or use the persistent objects of a fixture), call, validate, check purity and
    repeatability. Returns flags or SKIP."""
    t = REG()[tc["test"]]
    case = tc["case"]
    C = carriers.Carrier(data=tc.get("carrier", "f64"), junk=tc.get("junk", 0.0))
    site = f"{tc['test']}"
    n = t.n(case)
    args, kwargs = persistent if persistent is not None else t.build(case, C)
    before = (digest(list(args)), digest(kwargs))
    res = rec.call(site, t.func(), *args, **kwargs)
    if res is SKIP:
        return SKIP
    got = validate(rec, site, res, n, test=tc["test"], length=n)
    if got is SKIP:
        return SKIP
    after = (digest(list(args)), digest(kwargs))
    if before != after:
        rec.fail(site, "the call modified one of its arguments", mutated=True, test=tc["test"])
        return SKIP
    res2 = rec.call(site, t.func(), *args, **kwargs)
    if res2 is SKIP:
        return SKIP
    got2 = validate(rec, site, res2, n, test=tc["test"], length=n, second_call=True)
    if got2 is not SKIP and got2 != got:
        rec.fail(site, "a second call with the same arguments returned different flags", expected=got, got=got2,
                 not_repeatable=True, test=tc["test"])
        return SKIP
    if persistent is not None:
        # the same logical arguments as brand-new objects: state hidden in long-lived argument / parameter objects
        # (caches keyed on identity, memoised attributes) shows up as a difference
        fa, fk = t.build(case, C)
        res3 = rec.call(site, t.func(), *fa, **fk)
        if res3 is SKIP:
            return SKIP
        got3 = validate(rec, site, res3, n, test=tc["test"], length=n, fresh_objects=True)
        if got3 is not SKIP and got3 != got:
            rec.fail(site, "flags with long-lived argument objects differ from flags with freshly built equal objects",
                     expected=got3, got=got, stale_object_state=True, test=tc["test"])
            return SKIP
    return got


def check_total(tc, rec):
    nt, labels = nontrivial(tc)
    rec.note(nt, labels)
    run_once(rec, tc)


# ---- histories -----------------------------------------------------------------------------------
EXPRS = ["mean + 2 * std", "( max - min ) / 2", "- ( 1 + 2 )", "min", "3", "2 *", "( 1 + ", "foo + 1", "mean mean"]
STATS = {"min": 1.0, "max": 5.0, "mean": 2.5, "std": 0.5}


def step(rec, state, op):
    """Executes one operation of a history against `state` = {"fixtures": [...], "first": {}}."""
    kind = op["op"]
    if kind == "add":
        tc = op["tc"]
        state["fixtures"].append(tc)
        state["digests"].append(digest(tc["case"]))
        t = REG()[tc["test"]]
        try:
            state["objs"].append(t.build(tc["case"], carriers.Carrier(data=tc.get("carrier", "f64"), junk=tc.get("junk", 0.0))))
        except Exception:
            state["objs"].append(None)
    elif kind == "cross":
        # climatology: the long-lived config object of fixture i applied to the data of fixture j
        fx = [k for k, f in enumerate(state["fixtures"]) if f["test"] == "climatology" and state["objs"][k] is not None]
        if len(fx) < 1:
            return
        i, j = fx[op["i"] % len(fx)], fx[op["j"] % len(fx)]
        from ..tests import b_clim
        cfg_i = state["objs"][i][0][0]
        tj = state["fixtures"][j]
        (_, x, tt, z), _ = b_clim(tj["case"], carriers.CANON)
        (fresh_cfg, _, _, _), _ = b_clim(state["fixtures"][i]["case"], carriers.CANON)
        t = REG()["climatology"]
        n = t.n(tj["case"])
        state["calls"] += 1
        a = rec.call("climatology", t.func(), cfg_i, x, tt, z)
        b = rec.call("climatology", t.func(), fresh_cfg, x, tt, z)
        if a is SKIP or b is SKIP:
            return
        ga, gb = validate(rec, "climatology", a, n, cross=True), validate(rec, "climatology", b, n, cross=True)
        if ga is not SKIP and gb is not SKIP and ga != gb:
            rec.fail("climatology", "a config object used before gives different flags than an equal, freshly built one",
                     expected=gb, got=ga, stale_object_state=True, test="climatology")
        state["cross"] = True
    elif kind == "call":
        if not state["fixtures"]:
            return
        i = op["i"] % len(state["fixtures"])
        tc = state["fixtures"][i]
        got = run_once(rec, tc, persistent=state["objs"][i])
        if got is SKIP:
            return
        state["calls"] += 1
        if i in state["first"]:
            first, at = state["first"][i]
            if state["calls"] - at > 1:
                state["repeat_after_other"] = True
            if got != first:
                rec.fail(tc["test"], "same test on the same fixture returned different flags later in the history",
                         expected=first, got=got, history_dependent=True, test=tc["test"])
        else:
            state["first"][i] = (got, state["calls"])
        if digest(tc["case"]) != state["digests"][i]:
            rec.fail(tc["test"], "fixture changed during the history", mutated=True, test=tc["test"])
    elif kind == "fx":
        from ioos_qc.config_creator import fx_parser
        state["calls"] += 1
        try:
            fx_parser.eval_fx(op["expr"], STATS)
        except Exception:
            pass
    elif kind == "compare":
        from ioos_qc import qartod
        state["calls"] += 1
        try:
            qartod.qartod_compare([np.array(v, dtype="uint8") for v in op["vectors"]])
        except Exception:
            pass


def new_state():
    return {"fixtures": [], "digests": [], "objs": [], "first": {}, "calls": 0, "repeat_after_other": False, "cross": False}


def check_history(case, rec):
    state = new_state()
    for op in case["ops"]:
        step(rec, state, op)
    rec.note(state["repeat_after_other"], [f"fixtures={min(len(state['fixtures']), 4)}"] +
             (["repeat_after_other_call"] if state["repeat_after_other"] else []))


def machine(rec, tier):
    from hypothesis.stateful import RuleBasedStateMachine, initialize, precondition, rule

    class History(RuleBasedStateMachine):
        def __init__(self):
            super().__init__()
            self.ops = []
            self.state = new_state()
            rec.begin("history", {"ops": self.ops})

        def do(self, op):
            self.ops.append(op)
            step(rec, self.state, op)

        @initialize(tc=c01_case(tier))
        def first(self, tc):
            self.focus = tc["test"]
            self.do({"op": "add", "tc": tc})

        @rule(data=st.data(), same=st.integers(0, 2))
        def add(self, data, same):
            # two thirds of the fixtures use the same test as the first one, so that state leaking between calls
            # of one function (caches, mutable defaults) has a chance to matter
            tc = data.draw(c01_case(tier, [self.focus] if same else None))
            self.do({"op": "add", "tc": tc})

        @rule(i=st.integers(0, 7))
        def call(self, i):
            self.do({"op": "call", "i": i})

        @rule(i=st.integers(0, 7), j=st.integers(0, 7))
        def call_aba(self, i, j):
            for k in (i, j, i):
                self.do({"op": "call", "i": k})

        @rule(i=st.integers(0, 7), j=st.integers(0, 7))
        def cross(self, i, j):
            self.do({"op": "cross", "i": i, "j": j})
            self.do({"op": "call", "i": i})

        @rule()
        def call_all(self):
            for k in range(len(self.state["fixtures"])):
                self.do({"op": "call", "i": k})

        @rule(expr=st.sampled_from(EXPRS))
        def fx(self, expr):
            self.do({"op": "fx", "expr": expr})

        @rule(vs=st.lists(st.lists(st.sampled_from([1, 2, 3, 4, 9]), min_size=3, max_size=3), min_size=1, max_size=3))
        def compare(self, vs):
            self.do({"op": "compare", "vectors": vs})

        def teardown(self):
            rec.cur_case = {"ops": list(self.ops)}
            rec.cur_sub = "history"
            st_ = self.state
            rec.note(st_["repeat_after_other"], [f"fixtures={min(len(st_['fixtures']), 4)}"] +
                     (["repeat_after_other_call"] if st_["repeat_after_other"] else []))

    return History


@st.composite
def aba_case(draw, tier="quick"):
    a = draw(c01_case(tier))
    b = draw(c01_case(tier, [a["test"]]))
    ops = [{"op": "add", "tc": a}, {"op": "add", "tc": b}, {"op": "call", "i": 0}, {"op": "call", "i": 1},
           {"op": "call", "i": 0}]
    if a["test"] == "climatology":
        ops += [{"op": "cross", "i": 0, "j": 1}, {"op": "cross", "i": 1, "j": 0}, {"op": "call", "i": 0}, {"op": "call", "i": 1}]
    if draw(st.booleans()):
        ops.insert(3, {"op": "fx", "expr": draw(st.sampled_from(EXPRS))})
    return {"ops": ops}


SUBS = [
    Sub("total_valid", c01_case, check_total, quick=4000, thorough=80000),
    Sub("aba", aba_case, check_history, quick=2500, thorough=40000),
    Sub("history", None, check_history, quick=400, thorough=6000, machine=machine, steps=30),
]
REQUIRED_CLASSES = ["total_valid:huge_value", "total_valid:has_missing", "total_valid:n=0", "total_valid:n=1",
                    "history:repeat_after_other_call"]
