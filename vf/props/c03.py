"""C03 - range tests flag by inclusive interval membership, fail before suspect."""
from __future__ import annotations

import numpy as np
from hypothesis import strategies as st

from .. import gen, model
from ..core import SKIP, Enum, Sub
from ..util import carr, NAN, arr, compare, flags

ID = "C03"
RULE = ("gross_range_test: dyadic fail span (either order, list/tuple, degenerate), suspect span constructed inside it "
        "(equal, touching, degenerate, absent) or outside it (must raise ValueError); data drawn on, one grid step "
        "beside and far from all four bounds plus missing. valid_range_test: float64 arrays with float bounds and "
        "datetime64[s|ms|us|ns] arrays with datetime64/datetime bounds, each bound possibly absent (None/NaN/NaT), all 4 "
        "inclusivity settings, missing values as NaN/NaT or as masked elements hiding NaN / an in-span / a far out-of-span value. oracle = literal interval membership. non-trivial: >=1 present value exactly equal to a "
        "bound (or, for the rejection sub-check, every case). plus an exhaustive sweep over integer-grid spans")
ASSUMPTIONS = [
    "valid_range_test is given ndarrays whose dtype matches the bounds (docstring precondition); lower bound <= upper",
    "dyadic grid values, exact comparisons",
]
Q = 0.125


def _gr():
    from ioos_qc import qartod
    return qartod.gross_range_test


def _vr():
    from ioos_qc import axds
    return axds.valid_range_test


def _span(sp, kind):
    return tuple(sp) if kind == "tuple" else list(sp)


@st.composite
def gross_case(draw, tier="quick"):
    a, b = draw(gen.dyadic(3, -32, 32)), draw(gen.dyadic(3, -32, 32))
    if draw(st.integers(0, 7)) == 0:
        b = a
    flo, fhi = min(a, b), max(a, b)
    mode = draw(st.sampled_from(["none", "inside", "inside", "equal", "touch_lo", "touch_hi", "degenerate"]))
    inside = st.integers(int(flo * 8), int(fhi * 8)).map(lambda k: k / 8)
    if mode == "none":
        sus = None
    elif mode == "equal":
        sus = [flo, fhi]
    elif mode == "degenerate":
        v = draw(inside)
        sus = [v, v]
    else:
        c, d = draw(inside), draw(inside)
        c, d = min(c, d), max(c, d)
        if mode == "touch_lo":
            c = flo
        if mode == "touch_hi":
            d = fhi
        sus = [c, d]
    if sus is not None and draw(st.booleans()):
        sus = sus[::-1]
    fail = [a, b]
    bounds = [flo, fhi] + (sus or [])
    n = draw(gen.length(25))
    xs = draw(st.lists(gen.near(bounds, Q, 8.0), min_size=n, max_size=n))
    xs = draw(gen.overlay_missing(xs))
    off = draw(gen.big_offset)
    if off:
        xs, fail, sus = gen.shifted(xs, off), gen.shifted(fail, off), (None if sus is None else gen.shifted(sus, off))
    return {"x": xs, "fail": fail, "suspect": sus, "kind": draw(st.sampled_from(["list", "tuple"])), "offset": off}


def check_gross(case, rec):
    x, fail, sus = case["x"], case["fail"], case["suspect"]
    bounds = set(fail) | set(sus or [])
    on = any((not model.miss(v)) and v in bounds for v in x)
    labels = ["on_bound"] if on else []
    if sus is None:
        labels.append("no_suspect")
    elif sorted(sus) == sorted(fail):
        labels.append("suspect_eq_fail")
    if fail[0] > fail[1] or (sus and sus[0] > sus[1]):
        labels.append("reversed_span")
    if fail[0] == fail[1]:
        labels.append("degenerate_fail")
    if case.get("offset"):
        labels.append("large_magnitude")
    rec.note(on, labels)
    kw = {"fail_span": _span(fail, case["kind"])}
    if sus is not None or case.get("explicit_none"):
        kw["suspect_span"] = None if sus is None else _span(sus, case["kind"])
    site = "qartod.gross_range_test"
    got = flags(rec, site, rec.call(site, _gr(), carr(case, x), **kw), len(x))
    if got is SKIP:
        return
    compare(rec, site, got, model.model_gross_range(x, fail, sus))


@st.composite
def gross_reject_case(draw, tier="quick"):
    a, b = draw(gen.dyadic(3, -32, 32)), draw(gen.dyadic(3, -32, 32))
    flo, fhi = min(a, b), max(a, b)
    inside = st.integers(int(flo * 8), int(fhi * 8)).map(lambda k: k / 8)
    amount = draw(st.sampled_from([Q, Q, 1.0, 16.0]))
    side = draw(st.sampled_from(["lo", "hi", "both"]))
    c, d = draw(inside), draw(inside)
    c, d = min(c, d), max(c, d)
    if side in ("lo", "both"):
        c = flo - amount
    if side in ("hi", "both"):
        d = fhi + amount
    sus = [c, d]
    if draw(st.booleans()):
        sus = sus[::-1]
    fail = [a, b]
    xs = draw(st.lists(gen.near([flo, fhi], Q, 8.0), max_size=6))
    xs = draw(gen.overlay_missing(xs))
    return {"x": xs, "fail": fail, "suspect": sus, "kind": draw(st.sampled_from(["list", "tuple"]))}


def check_gross_reject(case, rec):
    rec.note(True, ["suspect_outside_fail", f"n={min(len(case['x']), 2)}"])
    rec.expect_raises("qartod.gross_range_test(suspect outside fail)", (ValueError,), _gr(), arr(case["x"]),
                      fail_span=_span(case["fail"], case["kind"]), suspect_span=_span(case["suspect"], case["kind"]))


# ---- valid_range ------------------------------------------------------------------------------
UNITS = ["s", "ms", "us", "ns"]


@st.composite
def valid_case(draw, tier="quick"):
    kind = draw(st.sampled_from(["float", "dt"]))
    if kind == "float":
        val = gen.dyadic(3, -32, 32)
    else:
        base = draw(st.sampled_from([-10, 0, 1577836800, 1582934400]))
        val = st.integers(-40, 40).map(lambda k: base + k)
    a, b = draw(val), draw(val)
    lo, hi = min(a, b), max(a, b)
    if draw(st.integers(0, 5)) == 0:
        hi = lo
    absent = draw(st.sampled_from(["", "", "", "lo", "hi", "both"]))
    lo_c = None if absent in ("lo", "both") else lo
    hi_c = None if absent in ("hi", "both") else hi
    n = draw(gen.length(20))
    step = Q if kind == "float" else 1
    pts = []
    for bnd in (lo, hi):
        pts += [bnd - 5 * step, bnd - step, bnd, bnd + step, bnd + 5 * step]
    xs = draw(st.lists(st.one_of(st.sampled_from(pts), val), min_size=n, max_size=n))
    xs = draw(gen.overlay_missing(xs, markers=st.just(None)))
    unit = draw(st.sampled_from(UNITS))
    extra = {}
    if kind == "dt" and draw(st.integers(0, 2)) == 0:
        # data finer than the (whole-second) bounds: sub-second instants just inside / outside a bound, bounds possibly
        # carried in a coarser unit than the data, dtype= possibly given explicitly
        unit = draw(st.sampled_from(["ms", "us", "ns"]))
        xs = [v if v is None else v + draw(st.sampled_from([0.0, 0.0, 0.5, -0.5, 0.125])) for v in xs]
        # instants less than one whole second inside / outside each bound
        planted = [lo + 0.5, lo + 0.125, lo - 0.5, hi - 0.5, hi - 0.125, hi + 0.5]
        for i in range(len(xs)):
            if xs[i] is not None and draw(st.integers(0, 2)) == 0:
                xs[i] = draw(st.sampled_from(planted))
        extra = {"bound_unit": draw(st.sampled_from(["same", "s", "s"])),
                 "dtype_param": draw(st.sampled_from([None, "datetime64", "datetime64", "unit"]))}
    elif kind == "dt" and draw(st.integers(0, 4)) == 0:
        # "open ended" written as a far-away date (9999-12-31, 2300-01-01, 1601-01-01): outside what nanoseconds can hold
        if hi_c is not None and draw(st.booleans()):
            hi_c = draw(st.sampled_from([253402214400, 10413792000]))
        elif lo_c is not None:
            lo_c = draw(st.sampled_from([-11644473600, -11644473600, 253402214400]))
            if hi_c is not None and hi_c < lo_c:
                hi_c = lo_c
        # (the other bound in the unit of the data - a span of mixed units - or everything in seconds)
        extra = {"far_bounds": True, "bound_unit": draw(st.sampled_from(["s", "mixed", "mixed"]))}
    elif kind == "dt" and draw(st.integers(0, 5)) == 0:
        # corrupt / far-away time stamps in the data (year 3000, 9999, 1500) held in whole seconds, against bounds in
        # nanoseconds: beyond what nanoseconds can hold, yet plainly outside the span
        unit = "s"
        for i in range(len(xs)):
            if xs[i] is not None and draw(st.integers(0, 2)) == 0:
                xs[i] = draw(st.sampled_from([32503680000, 253402214400, -14831769600]))
        extra = {"far_data": True, "bound_unit": "ns"}
    elif kind == "dt" and draw(st.integers(0, 2)) == 0:
        # bounds finer than the data: whole-second instants in a datetime64[s] array, bounds on half seconds
        unit = "s"
        lo_c = None if lo_c is None else lo_c + draw(st.sampled_from([0.0, 0.5, -0.5]))
        hi_c = None if hi_c is None else max(hi_c + draw(st.sampled_from([0.0, 0.5, -0.5])), lo_c if lo_c is not None else hi_c - 1)
        extra = {"fine_bounds": True}
    if kind == "float" and draw(st.integers(0, 3)) == 0:
        # whole-number data held in an integer array (signed, unsigned or masked), bounds possibly on half steps or
        # absent, dtype= left out or given explicitly as float64
        xs = [None if v is None else float(round(v)) for v in xs]
        lo_c = None if lo_c is None else float(round(lo_c)) + draw(st.sampled_from([0.0, 0.5, -0.5]))
        hi_c = None if hi_c is None else max(float(round(hi_c)) + draw(st.sampled_from([0.0, 0.5, -0.5])), lo_c if lo_c is not None else -1e9)
        extra = {"int_data": draw(st.sampled_from(["int64", "int32", "int64+float64", "uint16", "uint8"]))}
        if extra["int_data"].startswith("uint"):
            # unsigned counts (differences of unsigned integers wrap around): everything reflected to >= 0
            xs = [None if v is None else abs(v) for v in xs]
            b = sorted(abs(v) for v in (lo_c, hi_c) if v is not None)
            if lo_c is not None and hi_c is not None:
                lo_c, hi_c = b
            elif lo_c is not None:
                lo_c = b[0]
            elif hi_c is not None:
                hi_c = b[0]
    return {"kind": kind, "x": xs, "lo": lo_c, "hi": hi_c, "si": draw(st.booleans()), "ei": draw(st.booleans()), **extra,
            "unit": unit, "absent_as": draw(st.sampled_from(["none", "nan", "pdnat"] if kind == "dt" else ["none", "nan"])),
            "bound_type": draw(st.sampled_from(["np", "py"])), "span_kind": draw(st.sampled_from(["list", "tuple"])),
            "defaults": draw(st.integers(0, 3)) == 0,
            # missing values as NaN/NaT, or as masked elements hiding NaN or a finite value (inside or far outside the span)
            "mask_carrier": draw(st.sampled_from(["none", "none", "nan", "junk_out", "junk_in"]))}


def _valid_inputs(case):
    import datetime as dtm
    unit = case["unit"]
    if case["kind"] == "float":
        a = arr(case["x"])
        idt = case.get("int_data")
        lim = 2 ** 31 if idt and idt.startswith("int32") else 2 ** 53
        if idt and idt.startswith("uint"):
            lim = 2 ** 16 if idt == "uint16" else 2 ** 8
            if any(v is not None and v < 0 for v in case["x"]):
                idt = None
        if idt and all(v is None or (v == v and abs(v) < lim and float(v) == int(v)) for v in case["x"]):
            if all(v is not None for v in case["x"]):
                a = np.array([int(v) for v in case["x"]], dtype=idt.split("+")[0])
            elif case.get("mask_carrier", "none") == "none":
                # integers cannot hold NaN: missing members of integer data are masked
                a = np.ma.MaskedArray(np.array([0 if v is None else int(v) for v in case["x"]], dtype=idt.split("+")[0]),
                                      mask=np.array([v is None for v in case["x"]], dtype=bool))

        def bnd(v):
            if v is None:
                return None if case["absent_as"] == "none" else NAN
            return float(v) if case["bound_type"] == "py" else np.float64(v)
    else:
        a = np.array([np.datetime64("NaT") if v is None else np.datetime64(int(round(float(v) * 1000)), "ms") for v in case["x"]],
                     dtype=f"datetime64[{unit}]")

        def bnd(v):
            if v is None:
                if case["absent_as"] == "pdnat":
                    import pandas as pd
                    return pd.NaT
                return None if case["absent_as"] == "none" else np.datetime64("NaT")
            if case["bound_type"] == "py":
                try:
                    return dtm.datetime(1970, 1, 1) + dtm.timedelta(milliseconds=int(round(float(v) * 1000)))
                except OverflowError:  # beyond year 9999 (a far bound shifted further): only numpy can say it
                    return np.datetime64(int(v), "s")
            if float(v) != int(v):
                return np.datetime64(int(round(float(v) * 1000)), "ms")
            bu = unit if case.get("bound_unit", "same") == "same" else "s"
            if case.get("bound_unit") == "mixed":
                bu = "s" if abs(v) > 9e9 else unit
            if case.get("bound_unit") == "ns":
                bu = "ns"
            return np.datetime64(int(v), "s").astype(f"datetime64[{bu}]")
    mc = case.get("mask_carrier", "none")
    if mc != "none":
        mask = np.array([v is None for v in case["x"]], dtype=bool)
        if mc != "nan" and mask.any():
            lo, hi = case["lo"], case["hi"]
            ref = lo if lo is not None else (hi if hi is not None else 0)
            inside = ref if (lo is not None and (hi is None or hi > lo)) else ref
            junk = (ref - 1000) if mc == "junk_out" else inside
            if case["kind"] == "float":
                a = np.where(mask, float(junk), a)
            else:
                a = np.where(mask, np.datetime64(int(junk), "s").astype(a.dtype), a)
        a = np.ma.MaskedArray(a, mask=mask)
    span = [bnd(case["lo"]), bnd(case["hi"])]
    return a, _span(span, case["span_kind"])


def check_valid(case, rec):
    x, lo, hi = case["x"], case["lo"], case["hi"]
    si, ei = case["si"], case["ei"]
    if case.get("defaults"):
        si, ei = True, False
    on = any(v is not None and v in (lo, hi) for v in x)
    labels = [f"kind={case['kind']}", f"incl={int(si)}{int(ei)}"]
    if on:
        labels.append("on_bound")
    if lo is None or hi is None:
        labels.append("bound_absent")
    if case.get("mask_carrier", "none") != "none" and any(v is None for v in x):
        labels.append("masked_" + case["mask_carrier"])
    if case.get("dtype_param") and case.get("bound_type") == "np":
        labels.append("dtype_given")
    if any(v is not None and float(v) != int(v) for v in x):
        labels.append("subsecond_data")
    if case.get("int_data"):
        labels.append("int_data")
    if case.get("fine_bounds"):
        labels.append("bounds_finer_than_data")
    if case.get("far_bounds"):
        labels.append("bounds_beyond_nanosecond_range")
    if case.get("far_data"):
        labels.append("data_beyond_nanosecond_range")
    rec.note(on, labels)
    a, span = _valid_inputs(case)
    kw = {} if case.get("defaults") else {"start_inclusive": si, "end_inclusive": ei}
    if case.get("dtype_param") and case.get("bound_type") == "np":
        kw["dtype"] = "datetime64" if case["dtype_param"] == "datetime64" else f"datetime64[{case['unit']}]"
    if str(case.get("int_data", "")).endswith("+float64"):
        kw["dtype"] = np.float64
    site = "axds.valid_range_test"
    got = flags(rec, site, rec.call(site, _vr(), a, span, **kw), len(x))
    if got is SKIP:
        return
    xs = [None if v is None else v for v in x]
    compare(rec, site, got, model.model_valid_range(xs, lo, hi, si, ei))


# ---- exhaustive sweeps ------------------------------------------------------------------------
GRID = [0.0, 1.0, 2.0, 3.0, 4.0]
DATA = [k / 2 for k in range(-1, 10)] + [None]


def enum_chunks(tier):
    return [{"a": a} for a in GRID] + [{"valid": k} for k in ("float", "dt")]


def enum_cases(chunk):
    if "a" in chunk:
        a = chunk["a"]
        for b in GRID:
            yield {"x": DATA, "fail": [a, b], "suspect": None, "kind": "list", "_e": "gross"}
            for c in GRID:
                for d in GRID:
                    yield {"x": DATA, "fail": [a, b], "suspect": [c, d], "kind": "tuple", "_e": "gross"}
    else:
        kind = chunk["valid"]
        B = [None, 0, 1, 2, 3, 4]
        data = DATA if kind == "float" else [-1, 0, 1, 2, 3, 4, 5, None]
        for lo in B:
            for hi in B:
                if lo is not None and hi is not None and lo > hi:
                    continue
                for si in (True, False):
                    for ei in (True, False):
                        for absent_as in ("none", "nan"):
                            yield {"kind": kind, "x": data, "lo": lo, "hi": hi, "si": si, "ei": ei, "unit": "s",
                                   "absent_as": absent_as, "bound_type": "np", "span_kind": "tuple", "_e": "valid"}
                        if kind == "dt":
                            # millisecond data half a second beside every bound, bounds in the same or a coarser unit,
                            # dtype= absent / unit-less / exact
                            fine = [v + d for v in (-1, 0, 1, 2, 3, 4, 5) for d in (0.0, 0.5)] + [None]
                            for bu in ("same", "s"):
                                for dp in (None, "datetime64", "unit"):
                                    yield {"kind": kind, "x": fine, "lo": lo, "hi": hi, "si": si, "ei": ei, "unit": "ms",
                                           "absent_as": "none", "bound_type": "np", "span_kind": "list", "bound_unit": bu,
                                           "dtype_param": dp, "_e": "valid"}


def check_enum(case, rec):
    if case["_e"] == "valid":
        return check_valid(case, rec)
    fail, sus = case["fail"], case["suspect"]
    if sus is not None and (min(sus) < min(fail) or max(sus) > max(fail)):
        return check_gross_reject(case, rec)
    return check_gross(case, rec)


SUBS = [
    Sub("gross_range", lambda tier: gen.with_carrier(gross_case(tier)), check_gross, quick=8000, thorough=80000),
    Sub("gross_range_reject", gross_reject_case, check_gross_reject, quick=600, thorough=8000, quick_shards=1),
    Sub("valid_range", valid_case, check_valid, quick=8000, thorough=60000),
]
ENUMS = [Enum("range_grid", enum_chunks, enum_cases, check_enum,
              describe="gross_range: all fail spans x all suspect spans (or none) over the integer grid {0..4}^2 x {0..4}^2, "
                       "both orders, data = every grid point and half point and a missing value; valid_range: all "
                       "(lo<=hi or absent) bounds over {0..4} x 4 inclusivity settings x float/datetime (datetime also with "
                       "millisecond data half a second beside each bound x bounds in the same/coarser unit x dtype= absent/unit-less/exact)",
              tiers=("quick", "thorough"))]
REQUIRED_CLASSES = ["gross_range:on_bound", "gross_range:reversed_span", "valid_range:on_bound",
                    "valid_range:bound_absent", "valid_range:kind=dt"]
