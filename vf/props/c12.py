"""C12 - attenuated-signal flags compare the trailing window's spread with thresholds."""
from __future__ import annotations

import math
import statistics
from fractions import Fraction

import numpy as np
from hypothesis import strategies as st

from .. import gen, model
from ..core import SKIP, Sub
from ..util import carr, arr, compare, epoch32, flags, tarr
from ..model import F, G, M, S, U

ID = "C12"
RULE = ("n=0..25 dyadic series with missing on regular/irregular whole-second axes; check_type std|range (others must "
        "raise ValueError); modes {no period; period P; P+min_obs 1..6; P+min_period}; P both multiples and non-multiples "
        "of the step, often exactly the distance between two points (open left end); thresholds (suspect, fail) incl. "
        "fail>suspect drawn beside the spreads the model computes (range: also exactly on a spread). oracle: per-point "
        "model (population std / max-min of all present values without period; sample std / max-min over present values "
        "with t_n-P < t_j <= t_n otherwise; UNKNOWN below the required count or for an undefined spread). non-trivial: a "
        "window boundary falls exactly P s before a point, or some window has too few observations while a later one has "
        "enough, or fail>suspect, or a window contains a missing value")
ASSUMPTIONS = [
    "std spreads within 1e-4 (absolute) of a threshold are not judged (counted) - the statement excludes spreads within "
    "rounding distance; range spreads are exact on the dyadic grid and are judged on the threshold",
    "windowed range with a missing value in the window: UNKNOWN or the verdict on the present values are both accepted",
    "a window whose count of present values is below the minimum but whose count of rows is not: UNKNOWN or verdict accepted",
    "n<=1 with min_period (median step undefined) and empty input are judged only by C01's validity predicate",
]
Q = 0.125


def _att():
    from ioos_qc import qartod
    return qartod.attenuated_signal_test


def spread(vals, kind, sample):
    if kind == "range":
        return max(vals) - min(vals)
    if sample:
        if len(vals) < 2:
            return None
        return float(np.std(np.array(vals, dtype=np.float64), ddof=1))
    return float(np.std(np.array(vals, dtype=np.float64)))


def verdict(sp, s, f):
    if sp < f:
        return F
    if sp < s:
        return S
    return G


def model_att(case):
    """Returns (allowed, spreads list, meta)."""
    x, t = case["x"], case["t"]
    kind, P = case["check"], case["period"]
    s, f = case["suspect"], case["fail"]
    n = len(x)
    spreads = []
    meta = {"boundary": False, "short_then_enough": False, "win_missing": False}
    out = []
    if not P:
        pres = [v for v in x if not model.miss(v)]
        sp = spread(pres, kind, False) if pres else None
        if sp is not None:
            spreads.append(sp)
        for v in x:
            if model.miss(v):
                out.append({M})
            elif sp is None:
                out.append({U})
            else:
                out.append({verdict(sp, s, f)})
        return out, spreads, meta
    need = 1
    if case["min_obs"] is not None:
        need = case["min_obs"]
    elif case["min_period"] is not None:
        steps = sorted(Fraction(b) - Fraction(a) for a, b in zip(t, t[1:]))
        need = int(Fraction(case["min_period"]) / statistics.median(steps)) if steps else 0
    seen_short = False
    for i in range(n):
        idx = [j for j in range(i + 1) if t[i] - P < t[j] <= t[i]]
        if any(t[j] == t[i] - P for j in range(i)):
            meta["boundary"] = True
        pres = [x[j] for j in idx if not model.miss(x[j])]
        has_missing = len(pres) != len(idx)
        if model.miss(x[i]):
            out.append({M})
            continue
        if has_missing:
            meta["win_missing"] = True
        if len(pres) < max(need, 1):
            seen_short = True
            out.append({U} if len(idx) < max(need, 1) else {U, *( [verdict(spread(pres, kind, True), s, f)] if spread(pres, kind, True) is not None else [])})
            continue
        if seen_short:
            meta["short_then_enough"] = True
        sp = spread(pres, kind, True)
        if sp is None:
            out.append({U})
            continue
        spreads.append(sp)
        al = {verdict(sp, s, f)}
        if kind == "range" and has_missing:
            al.add(U)
        out.append(al)
    return out, spreads, meta


@st.composite
def att_case(draw, tier="quick"):
    n = draw(gen.length(25, min_n=1))
    x = draw(gen.present_series(n, gen.dyadic(3, -16, 16), gen.dyadic(3, -2, 2)))
    t, ds = draw(gen.time_axis(n, steps=[30, 60, 60, 120, 600, 3600]))
    subsec = draw(st.integers(0, 3)) == 0
    if subsec:
        # sub-second sampling instants (multiples of 1/8 s): the trailing window is formed on the exact instants.
        # (min_period is not combined with them: the code measures the sampling step in whole seconds, and the
        # statement does not say how a fractional step is to be rounded)
        t = [v + draw(st.sampled_from([0.0, 0.125, 0.5, 0.875])) for v in t]
        t = [int(v) if float(v) == int(v) else v for v in t]
    x = draw(gen.overlay_missing(x))
    check = draw(st.sampled_from(["std", "range"]))
    mode = draw(st.sampled_from(["none", "period", "period", "min_obs", "min_obs", "min_period"]))
    P = mo = mp = None
    if mode != "none":
        gaps = sorted({t[j] - t[i] for i in range(n) for j in range(i + 1, min(n, i + 6))})
        ch = [st.sampled_from([45, 90, 100, 150, 3600, 7200, 1000])]
        if gaps:
            g = draw(st.sampled_from(gaps))
            ch += [st.just(g), st.just(g), st.just(g + 1), st.just(max(g - 1, 1))]
        P = draw(st.one_of(*ch))
        if mode == "min_obs":
            mo = draw(st.integers(1, 6))
        elif mode == "min_period":
            # (the sampling step is the median step, in seconds and fractions of a second)
            mp = draw(st.one_of(st.sampled_from([30, 60, 90, 120, 240, 600]), st.integers(1, 4000)))
    off = 0.0
    if mode == "none" or check == "range":
        # a signal riding on a large offset (the windowed standard deviation is left out: pandas' online variance is not
        # offset-exact and the statement does not ask it to be)
        off = draw(gen.big_offset)
        x = gen.shifted(x, off)
    base = {"x": x, "t": t, "check": check, "period": P, "min_obs": mo, "min_period": mp, "suspect": 1.0, "fail": 0.5,
            "offset": off}
    _, spreads, _ = model_att(base)
    sp = sorted(set(spreads))

    def thr():
        ch = [gen.pos_dyadic(3, 8), st.just(0)]
        if sp:
            v = draw(st.sampled_from(sp))
            if check == "range":
                ch += [st.just(v), st.just(v + Q), st.just(max(v - Q, 0))]
            else:
                ch += [st.just(v * 1.25 + 0.01), st.just(v * 0.75), st.just(v + 0.01)]
        return draw(st.one_of(*ch))
    s, f = thr(), thr()
    if f > s and draw(st.booleans()):
        s, f = f, s
    base.update(suspect=s, fail=f, tc=draw(st.sampled_from(["dt64", "dt64", "epoch", "epoch32"])))
    return base


def check_att(case, rec):
    x, t = case["x"], case["t"]
    n = len(x)
    s, f, kind = case["suspect"], case["fail"], case["check"]
    allowed, spreads, meta = model_att(case)
    if kind == "std":
        for sp in spreads:
            if abs(sp - s) <= 1e-4 or abs(sp - f) <= 1e-4:
                rec.skip("std_spread_near_threshold")
                return
    labels = [f"check={kind}", "mode=" + ("none" if not case["period"] else "min_obs" if case["min_obs"] is not None else
                                          "min_period" if case["min_period"] is not None else "period")]
    for k, v in meta.items():
        if v:
            labels.append(k)
    if f > s:
        labels.append("fail_gt_suspect")
    if kind == "range" and any(sp in (s, f) for sp in spreads):
        labels.append("range_on_threshold")
    for fl, nm in ((G, "some_good"), (S, "some_suspect"), (F, "some_fail"), (U, "some_unknown")):
        if any(a == {fl} for a in allowed):
            labels.append(nm)
    if any(float(v) != int(v) for v in t):
        labels.append("subsecond_times")
    if case.get("offset"):
        labels.append("large_offset")
    rec.note(any(meta.values()) or f > s, labels)
    kw = {"suspect_threshold": s, "fail_threshold": f, "check_type": kind}
    if case["period"] is not None:
        kw["test_period"] = case["period"]
    if case["min_obs"] is not None:
        kw["min_obs"] = case["min_obs"]
    if case["min_period"] is not None:
        kw["min_period"] = case["min_period"]
    from ..streamgen import np_time
    frac = any(float(v) != int(v) for v in t)
    tt = np.array(t, dtype="float64" if frac else "int64") if case.get("tc") == "epoch" else np_time(t)
    if case.get("tc") == "epoch32":
        tt = epoch32(t)
    site = "qartod.attenuated_signal_test"
    got = flags(rec, site, rec.call(site, _att(), carr(case, x), tt, **kw), n, check=kind)
    if got is SKIP:
        return
    compare(rec, site, got, allowed, check=kind, mode=labels[1])


bad_check = st.one_of(st.sampled_from(["STD", "Range", "var", "ptp", "", "std ", "minmax", "stddev"]),
                      st.text(max_size=8).filter(lambda v: v not in ("std", "range")))


@st.composite
def badcheck_case(draw, tier="quick"):
    n = draw(st.integers(1, 8))
    x = draw(gen.present_series(n))
    t, _ = draw(gen.time_axis(n))
    return {"x": x, "t": t, "check": draw(bad_check), "period": draw(st.sampled_from([None, 60, 3600]))}


def check_badcheck(case, rec):
    rec.note(True, ["bad_check_type"])
    kw = {"test_period": case["period"]} if case["period"] else {}
    rec.expect_raises("qartod.attenuated_signal_test(check_type)", (ValueError,), _att(), arr(case["x"]), tarr(case["t"]),
                      1.0, 0.5, check_type=case["check"], **kw)


SUBS = [
    Sub("attenuated", lambda tier: gen.with_carrier(att_case(tier)), check_att, quick=6000, thorough=80000),
    Sub("attenuated_badcheck", badcheck_case, check_badcheck, quick=200, thorough=2000, quick_shards=1),
]
REQUIRED_CLASSES = ["attenuated:boundary", "attenuated:short_then_enough", "attenuated:win_missing",
                    "attenuated:fail_gt_suspect", "attenuated:range_on_threshold", "attenuated:mode=min_period",
                    "attenuated:some_unknown", "attenuated:some_fail", "attenuated:some_suspect", "attenuated:some_good"]
