"""C02 - a missing observation is never reported as evaluated."""
from __future__ import annotations

import itertools
import statistics

from hypothesis import strategies as st

from .. import carriers, model
from ..core import SKIP, Enum, Sub
from ..model import F, G, M, S, U
from ..tests import REG, any_case, times_of
from ..util import flags

ID = "C02"
RULE = ("the 10 tests that document missing-data handling. Exhaustive: for n=0..9 (quick: 0..5) every one of the 2^n placements "
        "of missing values in the observation series, and for tests with auxiliary inputs (depth for climatology and "
        "density_inversion; lon x lat for location and speed) every 2^n x 2^n joint placement for n<=5 (quick: <=4), each "
        "crossed with several dyadic value sequences and parameter families (every climatology member shape: +-zspan, "
        "absolute or periodic, +-fspan; both spike methods; all attenuated modes). Generated: the per-test strategies with "
        "missing markers None/NaN/masked(NaN) on longer series. oracle: forward - a missing observation (position tests: "
        "both coordinates) is MISSING, or UNKNOWN only where the test is undefined anyway (spike end points, speed index 0, "
        "single-point density, climatology point no member applies to, attenuated window with too few values); converse - "
        "MISSING only if the value, the neighbour it is differenced against, its depth or a coordinate is missing. "
        "Also rate_of_change / speed / climatology on a permuted (out of order) time axis, judged on the missing-data "
        "predicate only. non-trivial: >=1 missing and >=1 present element, or missing at index 0 / n-1, or n<3")
ASSUMPTIONS = [
    "location_test / speed_test with exactly one coordinate missing are not 'missing observations' (C14 makes that FAIL)",
    "masked arrays carrying finite data under the mask are a separate sub-check (known finding K-5 when open)",
]
TESTS = ["gross_range", "valid_range", "climatology", "spike", "roc", "flat_line", "attenuated", "density", "location",
         "speed"]
CARRIERS = ["f64", "list_none", "list_nan", "masked_nan", "object"]


def undefined_anyway(name, case, i, n):
    if name == "spike":
        return i in (0, n - 1)
    if name == "speed":
        return i == 0
    if name == "density":
        return n == 1
    if name == "climatology":
        return not any(model.clim_matches(m, case["t"][i], case["z"][i]) for m in case["members"])
    if name == "attenuated":
        x, t = case["x"], case["t"]
        P = case.get("period")
        floor = 2 if case["check"] == "std" and P else 1
        if not P:
            cnt = sum(1 for v in x if not model.miss(v))
            return cnt < 1
        need = 1
        if case.get("min_obs") is not None:
            need = case["min_obs"]
        elif case.get("min_period") is not None and n >= 2:
            from fractions import Fraction
            need = int(Fraction(case["min_period"]) / statistics.median(Fraction(b) - Fraction(a) for a, b in zip(t, t[1:])))
        cnt = sum(1 for j in range(i + 1) if t[i] - P < t[j] <= t[i] and not model.miss(x[j]))
        return cnt < max(need, floor)
    return False


def needs(name, case, i, n):
    def at(key, j):
        return [case[key][j]] if 0 <= j < n else []
    if name in ("gross_range", "valid_range", "flat_line", "attenuated"):
        return at("x", i)
    if name == "climatology":
        return at("x", i) + at("z", i)
    if name == "spike":
        return at("x", i - 1) + at("x", i) + at("x", i + 1)
    if name == "roc":
        return at("x", i) + at("x", i - 1)
    if name == "density":
        return at("rho", i) + at("z", i) + at("rho", i - 1) + at("z", i - 1)
    if name == "location":
        out = at("lon", i) + at("lat", i)
        if case.get("range_max") is not None:
            out += at("lon", i - 1) + at("lat", i - 1)
        return out
    if name == "speed":
        return at("lon", i) + at("lat", i) + at("lon", i - 1) + at("lat", i - 1)
    raise ValueError(name)


def judge(rec, tc, got, site):
    name, case = tc["test"], tc["case"]
    t = REG()[name]
    n = t.n(case)
    for i in range(n):
        obs_missing = all(model.miss(case[k][i]) for k in t.obs)
        if obs_missing:
            allowed = {M} | ({U} if undefined_anyway(name, case, i, n) else set())
            if got[i] not in allowed:
                rec.fail(site, f"index {i}: observation is missing but flag is {got[i]} (allowed {sorted(allowed)})",
                         expected=sorted(allowed), got=got, index=i, direction="forward", test=name,
                         carrier=tc.get("carrier"))
        elif got[i] == M:
            if not any(model.miss(v) for v in needs(name, case, i, n)):
                rec.fail(site, f"index {i}: present observation with all needed inputs present flagged MISSING",
                         got=got, index=i, direction="converse", test=name, carrier=tc.get("carrier"))


def labels_of(tc):
    name, case = tc["test"], tc["case"]
    t = REG()[name]
    n = t.n(case)
    obs_m = [all(model.miss(case[k][i]) for k in t.obs) for i in range(n)]
    anym, anyp = any(obs_m), not all(obs_m) if n else False
    edge = n > 0 and (obs_m[0] or obs_m[-1])
    aux_m = any(model.miss(v) for k in t.aux for v in case[k])
    part = len(t.obs) == 2 and any(model.miss(a) != model.miss(b) for a, b in zip(case[t.obs[0]], case[t.obs[1]]))
    labs = [f"test={name}"]
    for lab, on in (("mixed", anym and anyp), ("missing_at_edge", edge), ("n_lt_3", n < 3), ("aux_missing", aux_m),
                    ("partial_position", part)):
        if on:
            labs.append(lab)
    return (anym and anyp) or edge or (n < 3), labs


def check_missing(tc, rec):
    nt, labs = labels_of(tc)
    if tc.get("unordered"):
        t_ = tc["case"]["t"]
        order = sorted(range(len(t_)), key=lambda i: t_[i])
        if order != list(range(len(t_))):
            labs.append("time_not_increasing")
            if [order[j] for j in order] != list(range(len(t_))):
                labs.append("permutation_not_involution")
        labs.append(f"time_axis={tc.get('time_axis', 'permuted')}")
    rec.note(nt, labs + [f"carrier={tc.get('carrier', 'f64')}"])
    t = REG()[tc["test"]]
    C = carriers.Carrier(data=tc.get("carrier", "f64"), junk=tc.get("junk", 0.0))
    site = tc["test"] + ("[masked_junk]" if tc.get("carrier") in ("masked_junk", "masked_mixed", "masked_int") else "")
    args, kwargs = t.build(tc["case"], C)
    got = flags(rec, site, rec.call(site, t.func(), *args, **kwargs), t.n(tc["case"]), test=tc["test"],
                carrier=tc.get("carrier"))
    if got is SKIP:
        return
    judge(rec, tc, got, site)


@st.composite
def random_case(draw, tier="quick"):
    tc = draw(any_case(tier, TESTS))
    tc["carrier"] = "f64" if tc["test"] == "valid_range" else draw(st.sampled_from(CARRIERS))
    return tc


@st.composite
def junk_case(draw, tier="quick"):
    tc = draw(any_case(tier, [t for t in TESTS if t != "valid_range"]))
    tc["carrier"] = draw(st.sampled_from(["masked_junk", "masked_junk", "masked_mixed", "masked_int", "masked_fill"]))
    tc["junk"] = draw(st.sampled_from([0.0, 1.0, -3.5, 1000.0, 12.125, -9999.0, 1e20]))
    return tc


@st.composite
def unordered_case(draw, tier="quick"):
    """Records that arrive out of order: the same kind of case with its time axis permuted. Only the missing-data
    predicate is judged (which flag a present point deserves on an unordered axis is not C02's business)."""
    tc = draw(any_case(tier, ["roc", "speed", "climatology"]))
    t = list(tc["case"]["t"])
    how = draw(st.sampled_from(["permuted", "permuted", "repeated", "same_second"]))
    if how == "permuted":
        t = list(draw(st.permutations(t)))
    else:
        # a repeated record / several fixes within one second: no whole second elapses between neighbours
        for i in range(1, len(t)):
            if draw(st.integers(0, 2)) == 0:
                t[i] = t[i - 1] if how == "repeated" else t[i - 1] + draw(st.sampled_from([0.125, 0.5, 0.875]))
    tc["case"]["t"] = t
    tc["time_axis"] = how
    tc["carrier"] = draw(st.sampled_from(CARRIERS))
    tc["unordered"] = True
    return tc


# ---- exhaustive placement sweeps ---------------------------------------------------------------
def seqs(n):
    """A handful of dyadic value sequences of length n."""
    base = [
        [float(i) for i in range(n)],
        [2.0] * n,
        [0.0 if i % 2 else 4.0 for i in range(n)],
        [float((i * 5) % 7) - 3.0 for i in range(n)],
        [1.0 if i != n // 2 else 9.0 for i in range(n)],
        [8.0 - i * 0.5 for i in range(n)],
    ]
    return base


T0 = 1577750400  # 2019-12-31
CLIM_MEMBERS = [
    [],
    [{"period": None, "tspan": [T0 - 86400, T0 + 10 * 86400], "vspan": [0.0, 3.0], "fspan": None, "zspan": None}],
    [{"period": None, "tspan": [T0 - 86400, T0 + 3 * 86400], "vspan": [0.0, 3.0], "fspan": [-1.0, 5.0], "zspan": [0.0, 4.0]}],
    [{"period": "month", "tspan": [1, 12], "vspan": [0.0, 3.0], "fspan": None, "zspan": None}],
    [{"period": "week", "tspan": [1, 1], "vspan": [0.0, 3.0], "fspan": [-1.0, 5.0], "zspan": [0.0, 4.0]}],
    [{"period": "dayofyear", "tspan": [1, 366], "vspan": [0.0, 3.0], "fspan": None, "zspan": [2.0, 9.0]},
     {"period": None, "tspan": [T0, T0 + 2 * 86400], "vspan": [1.0, 2.0], "fspan": None, "zspan": None}],
    [{"period": "quarter", "tspan": [4, 4], "vspan": [5.0, 9.0], "fspan": None, "zspan": None},
     {"period": "dayofweek", "tspan": [0, 6], "vspan": [0.0, 3.0], "fspan": [0.0, 4.0], "zspan": [0.0, 100.0]}],
]


def templates(name, n):
    """Fully present base cases of length n for one test."""
    out = []
    t = [T0 + 43200 * i for i in range(n)]
    z = [float(i) for i in range(n)]
    for xs in seqs(n):
        if name == "gross_range":
            out.append({"x": xs, "fail": [-2.0, 6.0], "suspect": [0.0, 4.0], "kind": "list"})
            out.append({"x": xs, "fail": [0.0, 3.0], "suspect": None, "kind": "tuple"})
        elif name == "valid_range":
            out.append({"kind": "float", "x": xs, "lo": 0.0, "hi": 4.0, "si": True, "ei": False, "unit": "s",
                        "absent_as": "none", "bound_type": "np", "span_kind": "list"})
            out.append({"kind": "dt", "x": [int(v) + 100 for v in xs], "lo": 100, "hi": None, "si": False, "ei": True,
                        "unit": "ms", "absent_as": "nan", "bound_type": "np", "span_kind": "tuple"})
        elif name == "spike":
            for method in ("average", "differential"):
                out.append({"x": xs, "suspect": 1.0, "fail": 3.0, "method": method})
            out.append({"x": xs, "suspect": None, "fail": 0.5, "method": "average"})
        elif name == "roc":
            out.append({"x": xs, "t": [T0 + 60 * i for i in range(n)], "thr": 1 / 64})
            out.append({"x": xs, "t": [T0 + 60 * i * (i + 1) for i in range(n)], "thr": 8.0})
        elif name == "flat_line":
            out.append({"x": xs, "t0": T0, "D": 60, "suspect": 60, "fail": 120, "tol": 0.5})
            out.append({"x": xs, "t0": T0, "D": 1, "suspect": 0, "fail": 5, "tol": 10.0})
        elif name == "attenuated":
            tt = [T0 + 60 * i for i in range(n)]
            for check in ("std", "range"):
                out.append({"x": xs, "t": tt, "check": check, "period": None, "min_obs": None, "min_period": None,
                            "suspect": 2.0, "fail": 1.0})
                out.append({"x": xs, "t": tt, "check": check, "period": 180, "min_obs": None, "min_period": None,
                            "suspect": 2.0, "fail": 1.0})
                out.append({"x": xs, "t": tt, "check": check, "period": 150, "min_obs": 2, "min_period": None,
                            "suspect": 2.0, "fail": 1.0})
                if n >= 2:
                    out.append({"x": xs, "t": tt, "check": check, "period": 240, "min_obs": None, "min_period": 120,
                                "suspect": 1.0, "fail": 3.0})
    return out


def aux_templates(name, n):
    out = []
    t = [T0 + 43200 * i for i in range(n)]
    for xs in seqs(n)[:3]:
        if name == "climatology":
            for ms in CLIM_MEMBERS:
                out.append({"x": xs, "t": t, "z": [float(i) for i in range(n)], "members": ms, "tc": "dt64", "cfg": "dicts"})
        elif name == "density":
            out.append({"rho": xs, "z": [float(i) for i in range(n)], "suspect": -0.5, "fail": -2.0})
            out.append({"rho": xs, "z": [float(n - i) for i in range(n)], "suspect": 0.5, "fail": None})
        elif name == "location":
            lat = [v * 2 for v in xs]
            lon = [10.0 + i for i in range(n)]
            out.append({"lon": lon, "lat": lat, "bbox": None, "range_max": None})
            out.append({"lon": lon, "lat": lat, "bbox": [9.0, -5.0, 12.0, 5.0], "range_max": 150000.0})
        elif name == "speed":
            lat = [v * 2 for v in xs]
            lon = [10.0 + i for i in range(n)]
            out.append({"lon": lon, "lat": lat, "t": [T0 + 3600 * i for i in range(n)], "suspect": 20.0, "fail": 60.0})
    return out


AUX_TESTS = {"climatology": ("x", "z"), "density": ("rho", "z"), "location": ("lon", "lat"), "speed": ("lon", "lat")}


def enum_chunks(tier):
    top = 5 if tier == "quick" else 9
    top_aux = 4 if tier == "quick" else 5
    out = []
    for name in TESTS:
        if name in AUX_TESTS:
            for n in range(0, top_aux + 1):
                out.append({"test": name, "n": n, "aux": True})
        else:
            for n in range(0, top + 1):
                out.append({"test": name, "n": n, "aux": False})
    return out


def apply_mask(xs, mask, marker):
    return [marker if m else v for v, m in zip(xs, mask)]


def enum_cases(chunk):
    name, n = chunk["test"], chunk["n"]
    if not chunk["aux"]:
        for k, tpl in enumerate(templates(name, n)):
            for mask in itertools.product([False, True], repeat=n):
                case = dict(tpl)
                case["x"] = apply_mask(tpl["x"], mask, None)
                yield {"test": name, "case": case, "carrier": "list_none" if (k + sum(mask)) % 2 and name != "valid_range" else "f64"}
    else:
        ka, kb = AUX_TESTS[name]
        for k, tpl in enumerate(aux_templates(name, n)):
            for ma in itertools.product([False, True], repeat=n):
                for mb in itertools.product([False, True], repeat=n):
                    case = dict(tpl)
                    case[ka] = apply_mask(tpl[ka], ma, None)
                    case[kb] = apply_mask(tpl[kb], mb, float("nan"))
                    yield {"test": name, "case": case, "carrier": "f64"}


SUBS = [
    Sub("missing_random", random_case, check_missing, quick=8000, thorough=80000),
    Sub("missing_masked_junk", junk_case, check_missing, quick=1200, thorough=20000),
    Sub("missing_unordered_time", unordered_case, check_missing, quick=1500, thorough=20000),
]
ENUMS = [Enum("placements", enum_chunks, enum_cases, check_missing,
              describe="all 2^n placements of missing values for n<=9 (quick: <=5) x value sequences x parameter families for "
                       "gross_range, valid_range, spike, rate_of_change, flat_line, attenuated; all 2^n x 2^n joint placements "
                       "in (value, depth) / (lon, lat) for n<=5 (quick: <=4) for climatology, density_inversion, location, speed",
              tiers=("quick", "thorough"))]
REQUIRED_CLASSES = ["missing_random:mixed", "missing_random:missing_at_edge", "missing_random:aux_missing",
                    "placements:test=climatology", "placements:test=speed"]
