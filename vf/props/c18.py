"""C18 - a test that cannot run drops out without disturbing the rest of the run."""
from __future__ import annotations

import copy
import warnings

import numpy as np
from hypothesis import strategies as st

from .. import streamgen as sg
from ..util import sint
from ..core import SKIP, Sub, canon

ID = "C18"
LEVEL = "fault_enumeration"
RULE = ("a healthy config (1..3 contexts with absent or disjoint closed windows, 1..3 streams, 1..3 runnable tests each, as in "
        "C05) plus 1..4 injected faulty entries at generated positions, of every kind the statement lists: unknown module; "
        "unknown test name; parameters the function rejects (suspect span outside fail span, unknown spike method, unknown "
        "check_type, bbox of length 2, climatology member without vspan, non-numeric threshold, missing required "
        "parameter); a required input the table does not supply (time / depth / position); a stream id absent from the "
        "data; a callable that raises while evaluating (`aggregate` listed as a test, as the documented configs do). front "
        "ends: PandasStream, NumpyStream(dict), XarrayStream, NetcdfStream. oracle (differential): collect_results of the "
        "run with faults, restricted to the healthy keys, equals key by key and flag by flag the results of running each "
        "healthy test alone; no key exists for a faulty entry; no exception escapes Config() or run(). non-trivial: >=1 "
        "run-time fault (rejected parameters / missing input / raising) placed before a healthy test of the same stream in "
        "the same context")
ASSUMPTIONS = ["windows are chosen so that no row lies on a cut point and both bounds are given (XarrayStream findings K-1/K-3 are C05's)",
               "faulty entries never reuse the (stream, module, test) key of a healthy entry of the same context"]
FRONTENDS = ["pandas", "numpy_dict", "xarray_coord", "netcdf"]
RUNTIME = {"bad_params", "missing_input", "raises"}


@st.composite
def fault(draw, tbl, sids):
    kinds = ["unknown_module", "unknown_test", "bad_params", "bad_params", "bad_params", "absent_stream", "raises", "raises"]
    missing = []
    if tbl["t"] is None:
        missing += [["qartod", "rate_of_change_test", {"threshold": 1.0}], ["qartod", "flat_line_test", {"suspect_threshold": 60, "fail_threshold": 120}],
                    ["qartod", "attenuated_signal_test", {"suspect_threshold": 1.0, "fail_threshold": 0.5}]]
    if "z" not in tbl["axes"]:
        missing += [["qartod", "density_inversion_test", {"suspect_threshold": 0.0}]]
    if "z" not in tbl["axes"] or tbl["t"] is None:
        missing += [["qartod", "climatology_test", {"config": [{"tspan": ["2000-01-01", "2040-01-01"], "vspan": [0, 1]}]}]]
    if "lat" not in tbl["axes"]:
        missing += [["argo", "speed_test", {"suspect_threshold": 1.0, "fail_threshold": 2.0}], ["qartod", "location_test", None]]
    if missing:
        kinds += ["missing_input", "missing_input"]
    kind = draw(st.sampled_from(kinds))
    sid = draw(st.sampled_from(sids))
    if kind == "unknown_module":
        entry = [draw(st.sampled_from(["nosuchmodule", "qartod2", "Argo"])), "gross_range_test", draw(st.sampled_from([{"fail_span": [0, 1]}, None]))]
    elif kind == "unknown_test":
        entry = [draw(st.sampled_from(["qartod", "argo", "axds"])), draw(st.sampled_from(["no_such_test", "spike_tests", "range_test"])),
                 draw(st.sampled_from([{"a": 1}, {"a": 1}, None, {}]))]
    elif kind == "bad_params":
        entry = draw(st.sampled_from([
            ["qartod", "gross_range_test", {"fail_span": [0, 10], "suspect_span": [-5, 5]}],
            ["qartod", "gross_range_test", {"suspect_span": [1, 2]}],
            ["qartod", "gross_range_test", {"fail_span": [0, 1, 2]}],
            ["qartod", "spike_test", {"suspect_threshold": 1, "fail_threshold": 2, "method": "median"}],
            ["qartod", "spike_test", {"suspect_threshold": "abc"}],
            ["qartod", "attenuated_signal_test", {"suspect_threshold": 1, "fail_threshold": 2, "check_type": "var"}],
            ["qartod", "location_test", {"bbox": [0, 1]}],
            ["qartod", "climatology_test", {"config": [{"tspan": ["2000-01-01", "2040-01-01"]}]}],
            ["qartod", "rate_of_change_test", {}],
            ["axds", "valid_range_test", {}],
            ["qartod", "density_inversion_test", {"suspect_threshold": "x"}],
        ]))
    elif kind == "absent_stream":
        sid = draw(st.sampled_from(["ghost", "nope", "temp2"]))
        entry = draw(sg.test_entry(tbl))
    elif kind == "raises":
        entry = ["qartod", "aggregate", None]
    else:
        entry = draw(st.sampled_from(missing))
    return {"kind": kind, "stream": sid, "entry": entry}


@st.composite
def fault_case(draw, tier="quick"):
    tbl = draw(sg.table(max_rows=15))
    sids = list(tbl["cols"])
    nctx = draw(st.sampled_from([1, 1, 2, 3]))
    # disjoint closed windows whose cut points lie strictly between rows
    ctxs = []
    t = tbl["t"]
    cuts = None
    if t and nctx >= 1 and draw(st.booleans()):
        idx = sorted(draw(st.lists(st.integers(0, len(t)), min_size=nctx + 1, max_size=nctx + 1)))
        cuts = [(t[i] - 3 if i < len(t) else t[-1] + 3) for i in idx]
    for k in range(nctx):
        streams = {}
        for sid in draw(st.lists(st.sampled_from(sids), min_size=1, max_size=3, unique=True)):
            streams[sid] = draw(st.lists(sg.test_entry(tbl), min_size=1, max_size=3, unique_by=lambda e: (e[0], e[1])))
        w = None
        if cuts is not None:
            w = {"starting": cuts[k], "ending": cuts[k + 1]}
        elif k > 0:
            break  # without windows there can only be one context (identical contexts would merge)
        ctxs.append({"window": w, "streams": streams})
    faults = []
    for _ in range(draw(st.integers(1, 4))):
        f = draw(fault(tbl, sids))
        f["ctx"] = draw(st.integers(0, len(ctxs) - 1))
        f["pos"] = draw(st.sampled_from([0, 0, 0, 1, 2, 3]))
        faults.append(f)
    return {"table": tbl, "contexts": ctxs, "faults": faults, "style": draw(st.sampled_from(["iso", "datetime"])),
            "frontends": draw(st.lists(st.sampled_from(FRONTENDS), min_size=1, max_size=3, unique=True)),
            # how the (faulty) configuration is written when it has a single window-less context
            "layout": draw(st.sampled_from(["contexts", "contexts", "bare_streams", "single_context"]))}


def with_faults(case):
    """contexts with the faulty entries inserted; returns (contexts, set of faulty keys, nontrivial?)."""
    ctxs = copy.deepcopy(case["contexts"])
    faulty = set()
    before = False
    for f in case["faults"]:
        c = ctxs[f["ctx"]]
        mod, test, kw = f["entry"]
        if f["stream"] not in c["streams"]:
            # a new (absent) stream id goes to a generated position among the context's streams, so that healthy
            # streams come after it
            items = list(c["streams"].items())
            items.insert(min(f["pos"], len(items)), (f["stream"], []))
            c["streams"] = dict(items)
        entries = c["streams"][f["stream"]]
        if any(e[0] == mod and e[1] == test for e in entries):
            continue  # would collide with an existing key of this stream
        pos = min(f["pos"], len(entries))
        healthy_after = any(tuple(e[:2]) not in {(m, t) for (s, m, t) in faulty if s == f["stream"]} for e in entries[pos:])
        entries.insert(pos, [mod, test, kw])
        faulty.add((f["stream"], mod, test))
        if f["kind"] in RUNTIME and healthy_after:
            before = True
        if f["kind"] == "absent_stream" and list(c["streams"])[-1] != f["stream"]:
            before = True
    return ctxs, faulty, before


AXES = ("data", "tinp", "zinp", "lat", "lon")


def run_collect(fe, tbl, contexts, style, want_fields=False, layout="contexts"):
    """-> {(stream, module, test): [flags or None (masked)]}"""
    from ioos_qc.config import Config
    from ioos_qc.results import collect_results
    from ioos_qc.streams import NetcdfStream, NumpyStream, PandasStream, XarrayStream
    cfg = sg.config_obj(contexts, style)
    if layout != "contexts" and len(contexts) == 1 and not contexts[0].get("window"):
        only = cfg["contexts"][0]
        all_null = all(kw is None for mods in only["streams"].values() for ts in mods.values() for kw in ts.values())
        if layout == "single_context":
            cfg = only
        elif not all_null:  # (a bare mapping whose tests all lack parameters cannot be told from a module mapping)
            cfg = only["streams"]
    axes = {}
    if "z" in tbl["axes"]:
        axes["z"] = sg.np_col(tbl["axes"]["z"])
    if "lat" in tbl["axes"]:
        axes["lat"] = sg.np_col(tbl["axes"]["lat"])
        axes["lon"] = sg.np_col(tbl["axes"]["lon"])
    tarr = sg.np_time(tbl["t"]) if tbl["t"] is not None else None
    with warnings.catch_warnings():
        warnings.simplefilter("ignore")
        config = Config(cfg)
        if fe == "pandas":
            res = PandasStream(sg.make_df(tbl)).run(config)
        elif fe == "numpy_dict":
            res = NumpyStream(inp={k: sg.np_col(v) for k, v in tbl["cols"].items()}, time=tarr, **axes).run(config)
        elif fe == "xarray_coord":
            res = XarrayStream(sg.make_xr(tbl, "coord")).run(config)
        else:
            res = NetcdfStream(sg.make_xr(tbl, "coord")).run(config)
        # a ContextResult whose call failed has no CallResult: it contributes nothing
        got = collect_results([r for r in res], how="list")
    out = {}
    fields = {}
    for c in got:
        d, m = np.ma.getdata(c.results), np.ma.getmaskarray(c.results)
        key = (c.stream_id, c.package, c.test)
        out[key] = [None if mm else sint(v) for v, mm in zip(np.asarray(d).ravel().tolist(), np.asarray(m).ravel().tolist())]
        # the observations / time / depth / position the collected result carries along with the flags
        fields[key] = {}
        for ax in AXES:
            a = getattr(c, ax, None)
            vals = sg._tolist(np.ma.getdata(a)) if a is not None else []
            mask = np.ma.getmaskarray(a).ravel().tolist() if a is not None else []
            fields[key][ax] = [None if mm else v for v, mm in zip(vals or [], mask)]
    if want_fields:
        return out, fields
    return out


def check_faults(case, rec):
    from ..props import c05
    c05.ensure()
    tbl = case["table"]
    ctxs_f, faulty, before = with_faults(case)
    kinds = sorted({f["kind"] for f in case["faults"]})
    rec.note(before, [f"kind={k}" for k in kinds] + (["runtime_fault_before_healthy"] if before else []) +
             [f"fe={f}" for f in case["frontends"]] + [f"contexts={len(case['contexts'])}"] +
             ([f"layout={case.get('layout')}"] if len(ctxs_f) == 1 and not ctxs_f[0].get("window") else []))
    healthy = [(ci, sid, e) for ci, c in enumerate(case["contexts"]) for sid, es in c["streams"].items() for e in es]
    # an injected entry is only a fault if it really cannot be executed on this data (e.g. density_inversion_test with
    # a non-numeric threshold still runs on a single-point window): decide that with an independent direct call
    from ..props.c07 import known
    really_faulty = set()
    for f in case["faults"]:
        mod, test, kw = f["entry"]
        key = (f["stream"], mod, test)
        if key not in faulty:
            continue
        runnable = False
        if f["stream"] in tbl["cols"] and known(mod, test):
            mask = sg.row_mask(tbl, case["contexts"][f["ctx"]].get("window"))
            runnable = sg.direct_call(tbl, mask, f["stream"], mod, test, kw) is not None
        if runnable:
            healthy.append((f["ctx"], f["stream"], [mod, test, kw]))
        else:
            really_faulty.add(key)
    faulty = really_faulty
    for fe in case["frontends"]:
        site = {"pandas": "PandasStream", "numpy_dict": "NumpyStream(dict)", "xarray_coord": "XarrayStream", "netcdf": "NetcdfStream"}[fe]
        info = {"frontend": fe, "fault_kinds": kinds}
        try:
            full, full_fields = run_collect(fe, tbl, ctxs_f, case["style"], want_fields=True, layout=case.get("layout", "contexts"))
        except Exception as e:
            rec.fail(site, f"run with faulty entries raised {type(e).__name__}: {str(e)[:200]}", raised=True, exc=type(e).__name__, **info)
            continue
        # expected: union of running each healthy test alone
        want = {}
        want_fields = {}
        ok = True
        for ci, sid, e in healthy:
            alone = [{"window": case["contexts"][ci].get("window"), "streams": {sid: [e]}}]
            try:
                r, rf = run_collect(fe, tbl, alone, case["style"], want_fields=True)
            except Exception as ex:
                rec.fail(site, f"running a healthy test alone raised {type(ex).__name__}: {str(ex)[:200]}", raised=True,
                         exc=type(ex).__name__, alone=True, **info)
                ok = False
                break
            for k, v in r.items():
                if k in want:
                    want[k] = [a if a is not None else b for a, b in zip(want[k], v)]
                    for ax in AXES:
                        old, new = want_fields[k][ax], rf[k][ax]
                        want_fields[k][ax] = [a if a is not None else b for a, b in zip(old, new)] if len(old) == len(new) else (old or new)
                else:
                    want[k] = v
                    want_fields[k] = rf[k]
        if not ok:
            continue
        bad_keys = sorted(k for k in full if k in faulty and k not in want)
        if bad_keys:
            rec.fail(site, f"a faulty entry contributed a result: {bad_keys[0]}", got=[list(k) for k in bad_keys], faulty_key=True, **info)
            continue
        for k, v in want.items():
            if k not in full:
                rec.fail(site, f"healthy result {k} disappeared when faulty entries were added", expected=v, lost=True, **info)
                break
            if full[k] != v:
                rec.fail(site, f"healthy result {k} changed when faulty entries were added", expected=v, got=full[k], changed=True, **info)
                break
        else:
            for k in want:
                diff = [ax for ax in AXES if full_fields[k][ax] != want_fields[k][ax]]
                if diff:
                    ax = diff[0]
                    rec.fail(site, f"the {ax} carried by healthy result {k} changed when faulty entries were added",
                             expected=want_fields[k][ax], got=full_fields[k][ax], changed=True, field=ax, **info)
                    break
        extra = sorted(k for k in full if k not in want and k not in faulty)
        if extra:
            rec.fail(site, f"unexpected result key {extra[0]}", got=[list(k) for k in extra], **info)


SUBS = [Sub("faults", fault_case, check_faults, quick=2000, thorough=16000)]
REQUIRED_CLASSES = ["faults:runtime_fault_before_healthy"] + [f"faults:kind={k}" for k in
                    ("unknown_module", "unknown_test", "bad_params", "absent_stream", "raises", "missing_input")]
