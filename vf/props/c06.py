"""C06 - collected results put every context's flags back on the right input rows."""
from __future__ import annotations

import itertools

import numpy as np
from hypothesis import strategies as st

from ..util import sint
from ..core import SKIP, Sub

ID = "C06"
RULE = ("sequences of hand-built ContextResults shaped like the ones the streams emit (one CallResult each): N=0..20 rows, a "
        "partition of a subset of the rows into 0..4 disjoint groups (contiguous or scattered, incl. empty groups and one "
        "all-covering group), a pool of 1..3 (stream, module, test) keys of which every group carries a non-empty subset, "
        "flag arrays of dtype uint8/int64, axis arrays present (source values restricted to the group) or absent "
        "(zero-length arrays as the streams emit), in a generated yield order (quick: that order, its reverse and the "
        "identity; thorough: every permutation when <=5 results). oracle: reference scatter model - one collected result "
        "per key; list form masked on uncovered rows, dict form UNKNOWN there, both equal the context's flag on covered rows; "
        "data/time/depth/position equal the source on covered rows; identical outcome for every yield order. non-trivial: "
        ">=2 contexts for one key, or an empty / all-covering group, or absent axes, or a non-identity order")
ASSUMPTIONS = ["windows are disjoint (overlapping windows are outside the statement)",
               "one CallResult per ContextResult, as every stream front end emits"]
FLAGS = [1, 2, 3, 4, 9]


@st.composite
def collect_case(draw, tier="quick"):
    n = draw(st.one_of(st.integers(0, 20), st.sampled_from([0, 1, 2])))
    ngroups = draw(st.integers(0, 4))
    mode = draw(st.sampled_from(["contiguous", "scattered", "all_in_one", "with_empty"]))
    groups = [[] for _ in range(ngroups)]
    if ngroups:
        if mode == "all_in_one":
            groups[0] = list(range(n))
        elif mode == "contiguous":
            cuts = sorted(draw(st.lists(st.integers(0, n), min_size=ngroups + 1, max_size=ngroups + 1)))
            for g in range(ngroups):
                groups[g] = list(range(cuts[g], cuts[g + 1]))
        else:
            for i in range(n):
                g = draw(st.integers(-1, ngroups - 1))
                if g >= 0:
                    groups[g].append(i)
            if mode == "with_empty":
                groups[draw(st.integers(0, ngroups - 1))] = []
    nkeys = draw(st.integers(1, 4))
    pool = [["temp", "qartod", "gross_range_test"], ["temp", "qartod", "spike_test"], ["sal.1", "qartod", "gross_range_test"],
            ["temp", "argo", "pressure_increasing_test"], ["sal.1", "axds", "valid_range_test"],
            ["temp", "axds", "gross_range_test"],
            # stream ids that differ only in punctuation are different streams
            ["sal_1", "qartod", "gross_range_test"], ["sal 1", "qartod", "gross_range_test"], ["sal_1", "axds", "valid_range_test"]]
    keys = draw(st.lists(st.sampled_from(pool), min_size=nkeys, max_size=nkeys, unique_by=lambda k: tuple(k)))
    emitted = []
    for gi, rows in enumerate(groups):
        sel = draw(st.lists(st.sampled_from(keys), min_size=1, max_size=len(keys), unique_by=lambda k: tuple(k)))
        for k in sel:
            emitted.append({"group": gi, "key": k, "flags": draw(st.lists(st.sampled_from(FLAGS), min_size=len(rows), max_size=len(rows))),
                            "dtype": draw(st.sampled_from(["uint8", "uint8", "int64"]))})
    # a call that failed yields a ContextResult with an empty results list: it must contribute nothing
    for gi, rows in enumerate(groups):
        if draw(st.integers(0, 3)) == 0:
            emitted.append({"group": gi, "key": draw(st.sampled_from(pool)), "flags": None, "dtype": "uint8"})
    axes = {a: draw(st.booleans()) for a in ("tinp", "zinp", "lat", "lon")}
    if draw(st.booleans()):
        axes = {a: True for a in axes}
    order = draw(st.permutations(list(range(len(emitted)))))
    return {"n": n, "groups": groups, "emitted": emitted, "axes": axes, "order": order}


def source(n):
    return {"temp": np.arange(n, dtype="float64") * 1.5 + 10, "sal.1": np.arange(n, dtype="float64") * -2.0 + 35,
            "sal_1": np.arange(n, dtype="float64") * 0.5 + 7, "sal 1": np.arange(n, dtype="float64") * -0.25 - 4,
            "tinp": (np.arange(n) * 3600 + 1577836800).astype("datetime64[s]").astype("datetime64[ns]"),
            "zinp": np.arange(n, dtype="float64") + 0.5, "lat": np.arange(n, dtype="float64") * 0.25 - 3,
            "lon": 100.0 - np.arange(n, dtype="float64")}


def build(case):
    from ioos_qc import argo, axds, qartod
    from ioos_qc.results import CallResult, ContextResult
    mods = {"qartod": qartod, "argo": argo, "axds": axds}
    n = case["n"]
    src = source(n)
    out = []
    for e in case["emitted"]:
        rows = case["groups"][e["group"]]
        idx = np.zeros(n, dtype=bool)
        idx[rows] = True
        stream, mod, test = e["key"]
        empty = {"tinp": np.array([], dtype="datetime64[ns]"), "zinp": np.array([], dtype="float64"),
                 "lat": np.array([], dtype="float64"), "lon": np.array([], dtype="float64")}
        ax = {a: (src[a][idx] if case["axes"][a] else empty[a]) for a in empty}
        data = src[stream][idx]
        if case.get("readonly"):
            # pandas (copy-on-write) hands out read-only views; collecting must not write into them
            for a in list(ax.values()) + [data, idx]:
                a.flags.writeable = False
        if e["flags"] is None:
            out.append(ContextResult(stream_id=stream, results=[], subset_indexes=idx, data=data, **ax))
            continue
        out.append(ContextResult(stream_id=stream,
                                 results=[CallResult(package=mod, test=test,
                                                     function=getattr(mods[mod], test, None) or getattr(qartod, test),
                                                     results=np.array(e["flags"], dtype=e["dtype"]))],
                                 subset_indexes=idx, data=data, **ax))
    return out, src


def expected(case):
    """key -> list of flags per row (None = not covered)."""
    n = case["n"]
    exp = {}
    for e in case["emitted"]:
        if e["flags"] is None:
            continue
        k = tuple(e["key"])
        col = exp.setdefault(k, [None] * n)
        for r, f in zip(case["groups"][e["group"]], e["flags"]):
            col[r] = f
    return exp


def verify_order(case, order, rec, tag):
    from ioos_qc.results import collect_results
    crs, src = build(case)
    seq = [crs[i] for i in order]
    n = case["n"]
    exp = expected(case)
    info = {"order": tag, "axes_absent": [a for a, on in case["axes"].items() if not on],
            "partial": any(len(case["groups"][e["group"]]) != n for e in case["emitted"])}
    # the data of a (stream, test) key comes from contexts of that key only
    stream_of = {}
    site = "collect_results(list)"
    try:
        got = collect_results(list(seq), how="list")
    except Exception as e:
        rec.fail(site, f"raised {type(e).__name__}: {str(e)[:200]}", raised=True, exc=type(e).__name__, **info)
        got = None
    lists = {}
    if got is not None:
        keys = [(c.stream_id, c.package, c.test) for c in got]
        if sorted(keys) != sorted(exp):
            rec.fail(site, f"collected keys {sorted(keys)} != configured {sorted(exp)}", expected=sorted(exp), got=sorted(keys), **info)
            return
        for c in got:
            k = (c.stream_id, c.package, c.test)
            col = exp[k]
            res = c.results
            if np.shape(res) != (n,):
                rec.fail(site, f"{k}: results shape {np.shape(res)} != ({n},)", **info)
                continue
            data, mask = np.ma.getdata(res), np.ma.getmaskarray(res)
            lists[k] = (data, mask)
            for i in range(n):
                if col[i] is None:
                    if not mask[i]:
                        rec.fail(site, f"{k}: row {i} is covered by no context but is not masked (value {data[i]})", row=i, **info)
                        break
                elif mask[i] or sint(data[i]) != col[i]:
                    rec.fail(site, f"{k}: row {i} should carry flag {col[i]}, got {'masked' if mask[i] else sint(data[i])}",
                             expected=col, got=[None if m else sint(d) for d, m in zip(data, mask)], row=i, **info)
                    break
            if c.function is None or c.function.__name__ != k[2]:
                rec.fail(site, f"{k}: function attribute is {c.function}", **info)
            # axes and data on covered rows
            for name, want in (("data", src[k[0]]), ("tinp", src["tinp"]), ("zinp", src["zinp"]), ("lat", src["lat"]),
                               ("lon", src["lon"])):
                if name != "data" and not case["axes"][name]:
                    continue
                arr = getattr(c, name)
                if np.shape(arr) != (n,):
                    rec.fail(site, f"{k}: collected {name} has shape {np.shape(arr)} != ({n},)", axis=name, **info)
                    continue
                ad, am = np.ma.getdata(arr), np.ma.getmaskarray(arr)
                for i in range(n):
                    if col[i] is not None and (am[i] or ad[i] != want[i]):
                        rec.fail(site, f"{k}: collected {name}[{i}] = {'masked' if am[i] else ad[i]} != source {want[i]}",
                                 axis=name, row=i, **info)
                        break
    site = "collect_results(dict)"
    try:
        gd = collect_results(list(seq), how="dict")
    except Exception as e:
        rec.fail(site, f"raised {type(e).__name__}: {str(e)[:200]}", raised=True, exc=type(e).__name__, **info)
        return
    dkeys = sorted((s, m, t) for s in gd for m in gd[s] for t in gd[s][m])
    if dkeys != sorted(exp):
        rec.fail(site, f"dict keys {dkeys} != configured {sorted(exp)}", expected=sorted(exp), got=dkeys, **info)
        return
    for k, col in exp.items():
        res = gd[k[0]][k[1]][k[2]]
        if np.shape(res) != (n,):
            rec.fail(site, f"{k}: results shape {np.shape(res)} != ({n},)", **info)
            continue
        data, mask = np.ma.getdata(res), np.ma.getmaskarray(res)
        for i in range(n):
            want = 2 if col[i] is None else col[i]
            if mask[i] or sint(data[i]) != want:
                rec.fail(site, f"{k}: row {i} should be {want} in the dict form, got {'masked' if mask[i] else sint(data[i])}",
                         expected=[2 if c is None else c for c in col], got=[None if m else sint(d) for d, m in zip(data, mask)],
                         row=i, **info)
                break


def check_collect(case, rec):
    n = case["n"]
    groups, emitted = case["groups"], case["emitted"]
    per_key = {}
    for e in emitted:
        if e["flags"] is None:
            continue
        per_key[tuple(e["key"])] = per_key.get(tuple(e["key"]), 0) + 1
    multi = any(v >= 2 for v in per_key.values())
    empty = any(len(g) == 0 for g in groups) and bool(emitted)
    allc = any(len(g) == n for g in groups) and bool(emitted)
    absent = not all(case["axes"].values())
    perm = list(case["order"]) != sorted(case["order"])
    labels = [lab for lab, on in (("multi_context_key", multi), ("empty_group", empty), ("all_covering_group", allc),
                                  ("absent_axes", absent), ("non_identity_order", perm), ("no_results", not emitted),
                                  ("n0", n == 0), ("readonly_arrays", case.get("readonly")),
                                  ("failed_call_result", any(e["flags"] is None for e in emitted))) if on]
    rec.note(multi or empty or allc or absent or perm, labels)
    ident = list(range(len(emitted)))
    orders = [("identity", ident), ("given", list(case["order"])), ("reversed", ident[::-1])]
    if case.get("all_perms") and len(emitted) <= 5:
        orders = [("perm", list(p)) for p in itertools.permutations(ident)]
    seen = set()
    for tag, o in orders:
        if tuple(o) in seen:
            continue
        seen.add(tuple(o))
        verify_order(case, o, rec, tag)


@st.composite
def collect_case_thorough(draw, tier="quick"):
    c = draw(collect_case(tier))
    c["readonly"] = draw(st.booleans())
    c["all_perms"] = tier == "thorough"
    return c


SUBS = [Sub("collect", collect_case_thorough, check_collect, quick=3000, thorough=40000)]
REQUIRED_CLASSES = ["collect:multi_context_key", "collect:empty_group", "collect:all_covering_group", "collect:absent_axes",
                    "collect:non_identity_order"]


# ---- Domain B: end to end through the stream front ends ------------------------------------------------
from .. import streamgen as sg  # noqa: E402

E2E_FRONTENDS = ["pandas", "numpy_dict", "xarray_coord", "netcdf"]


@st.composite
def e2e_case(draw, tier="quick"):
    tbl = draw(sg.table(max_rows=15))
    sids = list(tbl["cols"])
    t = tbl["t"]
    nctx = draw(st.sampled_from([1, 2, 3]))
    cuts = None
    if t and draw(st.integers(0, 3)) != 0:
        idx = sorted(draw(st.lists(st.integers(0, len(t)), min_size=nctx + 1, max_size=nctx + 1)))
        # cut points strictly between rows, or (half of the cases) exactly on a row's time: that row belongs to the window
        # that *starts* there, so adjacent windows [a, b) [b, c) stay disjoint
        on_row = draw(st.booleans())
        cuts = [((t[i] if on_row else t[i] - 3) if i < len(t) else t[-1] + 3) for i in idx]
    ctxs = []
    for k in range(nctx):
        streams = {}
        for sid in draw(st.lists(st.sampled_from(sids), min_size=1, max_size=2, unique=True)):
            streams[sid] = draw(st.lists(sg.test_entry(tbl), min_size=1, max_size=2, unique_by=lambda e: (e[0], e[1])))
        if cuts is not None:
            ctxs.append({"window": {"starting": cuts[k], "ending": cuts[k + 1]}, "streams": streams})
        else:
            ctxs.append({"window": None, "streams": streams})
            break
    return {"table": tbl, "contexts": ctxs, "style": draw(st.sampled_from(["iso", "datetime"])),
            "frontends": draw(st.lists(st.sampled_from(E2E_FRONTENDS), min_size=1, max_size=2, unique=True)),
            "reverse_contexts": draw(st.booleans()),
            # the stream arrays handed to NumpyStream as numpy masked arrays (junk under the masks), or as NaN-marked arrays
            "inp_masked": draw(st.sampled_from([None, None, 0.0, -999.0]))}


def check_e2e(case, rec):
    import warnings
    from ioos_qc.config import Config
    from ioos_qc.results import collect_results
    from ioos_qc.streams import NetcdfStream, NumpyStream, PandasStream, XarrayStream
    from . import c05
    c05.ensure()
    tbl = case["table"]
    n = tbl["n"]
    ctxs = case["contexts"][::-1] if case.get("reverse_contexts") else case["contexts"]
    # model: per key the scatter of the direct calls
    def scatter(inp_masked):
        out = {}
        for c in case["contexts"]:
            mask = sg.row_mask(tbl, c.get("window"))
            for sid, entries in c["streams"].items():
                for mod, test, kw in entries:
                    fl = sg.direct_call(tbl, mask, sid, mod, test, kw, inp_masked)
                    if fl is None:
                        continue
                    col = out.setdefault((sid, mod, test), [None] * n)
                    it = iter(fl)
                    for i, m in enumerate(mask):
                        if m:
                            col[i] = next(it)
        return out
    exp_plain = scatter(None)
    # (the direct calls get the observations in the carrier the stream was given)
    exp_masked = scatter(case["inp_masked"]) if case.get("inp_masked") is not None else exp_plain
    partial = any(not all(sg.row_mask(tbl, c.get("window"))) for c in case["contexts"])
    rec.note(len(case["contexts"]) >= 2 or "z" not in tbl["axes"] or "lat" not in tbl["axes"],
             [f"contexts={len(case['contexts'])}"] + (["partial_windows"] if partial else []) +
             (["axis_absent"] if ("z" not in tbl["axes"] or "lat" not in tbl["axes"]) else []) +
             (["contexts_listed_in_reverse"] if case.get("reverse_contexts") else []) + [f"fe={f}" for f in case["frontends"]])
    cfg = sg.config_obj(ctxs, case["style"])
    axes = {}
    if "z" in tbl["axes"]:
        axes["z"] = sg.np_col(tbl["axes"]["z"])
    if "lat" in tbl["axes"]:
        axes["lat"] = sg.np_col(tbl["axes"]["lat"])
        axes["lon"] = sg.np_col(tbl["axes"]["lon"])
    tarr = sg.np_time(tbl["t"]) if tbl["t"] is not None else None
    src = {"tinp": tarr, "zinp": axes.get("z"), "lat": axes.get("lat"), "lon": axes.get("lon")}
    for fe in case["frontends"]:
        exp = exp_masked if fe == "numpy_dict" else exp_plain
        site = f"collect_results({fe})"

        def stream():
            if fe == "pandas":
                return PandasStream(sg.make_df(tbl))
            if fe == "numpy_dict":
                col = (lambda v: sg.np_col_masked(v, case["inp_masked"])) if case.get("inp_masked") is not None else sg.np_col
                return NumpyStream(inp={k: col(v) for k, v in tbl["cols"].items()}, time=tarr, **axes)
            if fe == "xarray_coord":
                return XarrayStream(sg.make_xr(tbl, "coord"))
            return NetcdfStream(sg.make_xr(tbl, "coord"))
        with warnings.catch_warnings():
            warnings.simplefilter("ignore")
            try:
                got_list = collect_results(list(stream().run(Config(cfg))), how="list")
                got_dict = collect_results(list(stream().run(Config(cfg))), how="dict")
            except Exception as e:
                rec.fail(site, f"raised {type(e).__name__}: {str(e)[:200]}", raised=True, exc=type(e).__name__, frontend=fe)
                continue
        keys = sorted((c.stream_id, c.package, c.test) for c in got_list)
        if keys != sorted(exp):
            rec.fail(site, f"collected keys {keys} != expected {sorted(exp)}", expected=sorted(exp), got=keys, frontend=fe)
            continue
        for c in got_list:
            k = (c.stream_id, c.package, c.test)
            col = exp[k]
            d, m = np.ma.getdata(c.results), np.ma.getmaskarray(c.results)
            have = [None if mm else sint(v) for v, mm in zip(np.asarray(d).ravel().tolist(), np.asarray(m).ravel().tolist())]
            if have != col:
                rec.fail(site, f"{k}: list form differs from the scatter of the direct calls", expected=col, got=have, frontend=fe)
                break
            dd = gd = None
            try:
                gd = got_dict[k[0]][k[1]][k[2]]
                dd = [sint(v) for v in np.asarray(np.ma.getdata(gd)).ravel().tolist()]
            except Exception:
                pass
            if dd != [2 if v is None else v for v in col]:
                rec.fail(site, f"{k}: dict form differs (UNKNOWN expected on uncovered rows)",
                         expected=[2 if v is None else v for v in col], got=dd, frontend=fe)
                break
            for name, want in [("data", sg.np_col(tbl["cols"][k[0]]))] + [(a, s) for a, s in src.items() if s is not None]:
                arr = getattr(c, name)
                if np.shape(arr) != (n,):
                    rec.fail(site, f"{k}: collected {name} has shape {np.shape(arr)}", axis=name, frontend=fe)
                    break
                ad, am = np.ma.getdata(arr), np.ma.getmaskarray(arr)
                # (a masked collected element is a missing value: right exactly where the source is missing)
                bad = [i for i in range(n) if col[i] is not None and
                       ((am[i] and not (name == "data" and want[i] != want[i])) or
                        (not am[i] and not (ad[i] == want[i] or (ad[i] != ad[i] and want[i] != want[i]))))]
                if bad:
                    rec.fail(site, f"{k}: collected {name}[{bad[0]}] != source", axis=name, row=bad[0], frontend=fe,
                             expected=str(want[bad[0]]), got=str(ad[bad[0]]))
                    break


SUBS.append(Sub("end_to_end", e2e_case, check_e2e, quick=500, thorough=8000))
REQUIRED_CLASSES += ["end_to_end:partial_windows", "end_to_end:axis_absent", "end_to_end:contexts_listed_in_reverse"]
