"""C06 - collected results put every context's flags back on the right input rows."""
from __future__ import annotations

import itertools

import numpy as np
from hypothesis import strategies as st

from ..core import SKIP, Sub

ID = "C06"
RULE = ("sequences of hand-built ContextResults shaped like the ones the streams emit (one CallResult each): N=0..20 rows, a "
        "partition of a subset of the rows into 0..4 disjoint groups (contiguous or scattered, incl. empty groups and one "
        "all-covering group), a pool of 1..3 (stream, module, test) keys of which every group carries a non-empty subset, "
        "flag arrays of dtype uint8/int64, axis arrays present (source values restricted to the group) or absent "
        "(zero-length arrays as the streams emit), in a generated yield order (quick: that order, its reverse and the "
        "identity; thorough: every permutation when <=5 results). oracle: reference scatter model - one collected result "
        "per key; list form masked on uncovered rows, dict form UNKNOWN there, both equal the context's flag on covered rows; "
        "data/time/depth/position equal the source on covered rows; identical outcome for every yield order. non-trivial: "
        ">=2 contexts for one key, or an empty / all-covering group, or absent axes, or a non-identity order")
ASSUMPTIONS = ["windows are disjoint (overlapping windows are outside the statement)",
               "one CallResult per ContextResult, as every stream front end emits"]
FLAGS = [1, 2, 3, 4, 9]


@st.composite
def collect_case(draw, tier="quick"):
    n = draw(st.one_of(st.integers(0, 20), st.sampled_from([0, 1, 2])))
    ngroups = draw(st.integers(0, 4))
    mode = draw(st.sampled_from(["contiguous", "scattered", "all_in_one", "with_empty"]))
    groups = [[] for _ in range(ngroups)]
    if ngroups:
        if mode == "all_in_one":
            groups[0] = list(range(n))
        elif mode == "contiguous":
            cuts = sorted(draw(st.lists(st.integers(0, n), min_size=ngroups + 1, max_size=ngroups + 1)))
            for g in range(ngroups):
                groups[g] = list(range(cuts[g], cuts[g + 1]))
        else:
            for i in range(n):
                g = draw(st.integers(-1, ngroups - 1))
                if g >= 0:
                    groups[g].append(i)
            if mode == "with_empty":
                groups[draw(st.integers(0, ngroups - 1))] = []
    nkeys = draw(st.integers(1, 3))
    pool = [["temp", "qartod", "gross_range_test"], ["temp", "qartod", "spike_test"], ["sal.1", "qartod", "gross_range_test"],
            ["temp", "argo", "pressure_increasing_test"], ["sal.1", "axds", "valid_range_test"],
            ["temp", "axds", "gross_range_test"]]
    keys = draw(st.lists(st.sampled_from(pool), min_size=nkeys, max_size=nkeys, unique_by=lambda k: tuple(k)))
    emitted = []
    for gi, rows in enumerate(groups):
        sel = draw(st.lists(st.sampled_from(keys), min_size=1, max_size=len(keys), unique_by=lambda k: tuple(k)))
        for k in sel:
            emitted.append({"group": gi, "key": k, "flags": draw(st.lists(st.sampled_from(FLAGS), min_size=len(rows), max_size=len(rows))),
                            "dtype": draw(st.sampled_from(["uint8", "uint8", "int64"]))})
    axes = {a: draw(st.booleans()) for a in ("tinp", "zinp", "lat", "lon")}
    if draw(st.booleans()):
        axes = {a: True for a in axes}
    order = draw(st.permutations(list(range(len(emitted)))))
    return {"n": n, "groups": groups, "emitted": emitted, "axes": axes, "order": order}


def source(n):
    return {"temp": np.arange(n, dtype="float64") * 1.5 + 10, "sal.1": np.arange(n, dtype="float64") * -2.0 + 35,
            "tinp": (np.arange(n) * 3600 + 1577836800).astype("datetime64[s]").astype("datetime64[ns]"),
            "zinp": np.arange(n, dtype="float64") + 0.5, "lat": np.arange(n, dtype="float64") * 0.25 - 3,
            "lon": 100.0 - np.arange(n, dtype="float64")}


def build(case):
    from ioos_qc import argo, axds, qartod
    from ioos_qc.results import CallResult, ContextResult
    mods = {"qartod": qartod, "argo": argo, "axds": axds}
    n = case["n"]
    src = source(n)
    out = []
    for e in case["emitted"]:
        rows = case["groups"][e["group"]]
        idx = np.zeros(n, dtype=bool)
        idx[rows] = True
        stream, mod, test = e["key"]
        empty = {"tinp": np.array([], dtype="datetime64[ns]"), "zinp": np.array([], dtype="float64"),
                 "lat": np.array([], dtype="float64"), "lon": np.array([], dtype="float64")}
        ax = {a: (src[a][idx] if case["axes"][a] else empty[a]) for a in empty}
        data = src[stream][idx]
        if case.get("readonly"):
            # pandas (copy-on-write) hands out read-only views; collecting must not write into them
            for a in list(ax.values()) + [data, idx]:
                a.flags.writeable = False
        out.append(ContextResult(stream_id=stream,
                                 results=[CallResult(package=mod, test=test,
                                                     function=getattr(mods[mod], test, None) or getattr(qartod, test),
                                                     results=np.array(e["flags"], dtype=e["dtype"]))],
                                 subset_indexes=idx, data=data, **ax))
    return out, src


def expected(case):
    """key -> list of flags per row (None = not covered)."""
    n = case["n"]
    exp = {}
    for e in case["emitted"]:
        k = tuple(e["key"])
        col = exp.setdefault(k, [None] * n)
        for r, f in zip(case["groups"][e["group"]], e["flags"]):
            col[r] = f
    return exp


def verify_order(case, order, rec, tag):
    from ioos_qc.results import collect_results
    crs, src = build(case)
    seq = [crs[i] for i in order]
    n = case["n"]
    exp = expected(case)
    info = {"order": tag, "axes_absent": [a for a, on in case["axes"].items() if not on],
            "partial": any(len(case["groups"][e["group"]]) != n for e in case["emitted"])}
    site = "collect_results(list)"
    try:
        got = collect_results(list(seq), how="list")
    except Exception as e:
        rec.fail(site, f"raised {type(e).__name__}: {str(e)[:200]}", raised=True, exc=type(e).__name__, **info)
        got = None
    lists = {}
    if got is not None:
        keys = [(c.stream_id, c.package, c.test) for c in got]
        if sorted(keys) != sorted(exp):
            rec.fail(site, f"collected keys {sorted(keys)} != configured {sorted(exp)}", expected=sorted(exp), got=sorted(keys), **info)
            return
        for c in got:
            k = (c.stream_id, c.package, c.test)
            col = exp[k]
            res = c.results
            if np.shape(res) != (n,):
                rec.fail(site, f"{k}: results shape {np.shape(res)} != ({n},)", **info)
                continue
            data, mask = np.ma.getdata(res), np.ma.getmaskarray(res)
            lists[k] = (data, mask)
            for i in range(n):
                if col[i] is None:
                    if not mask[i]:
                        rec.fail(site, f"{k}: row {i} is covered by no context but is not masked (value {data[i]})", row=i, **info)
                        break
                elif mask[i] or int(data[i]) != col[i]:
                    rec.fail(site, f"{k}: row {i} should carry flag {col[i]}, got {'masked' if mask[i] else int(data[i])}",
                             expected=col, got=[None if m else int(d) for d, m in zip(data, mask)], row=i, **info)
                    break
            if c.function is None or c.function.__name__ != k[2]:
                rec.fail(site, f"{k}: function attribute is {c.function}", **info)
            # axes and data on covered rows
            for name, want in (("data", src[k[0]]), ("tinp", src["tinp"]), ("zinp", src["zinp"]), ("lat", src["lat"]),
                               ("lon", src["lon"])):
                if name != "data" and not case["axes"][name]:
                    continue
                arr = getattr(c, name)
                if np.shape(arr) != (n,):
                    rec.fail(site, f"{k}: collected {name} has shape {np.shape(arr)} != ({n},)", axis=name, **info)
                    continue
                ad, am = np.ma.getdata(arr), np.ma.getmaskarray(arr)
                for i in range(n):
                    if col[i] is not None and (am[i] or ad[i] != want[i]):
                        rec.fail(site, f"{k}: collected {name}[{i}] = {'masked' if am[i] else ad[i]} != source {want[i]}",
                                 axis=name, row=i, **info)
                        break
    site = "collect_results(dict)"
    try:
        gd = collect_results(list(seq), how="dict")
    except Exception as e:
        rec.fail(site, f"raised {type(e).__name__}: {str(e)[:200]}", raised=True, exc=type(e).__name__, **info)
        return
    dkeys = sorted((s, m, t) for s in gd for m in gd[s] for t in gd[s][m])
    if dkeys != sorted(exp):
        rec.fail(site, f"dict keys {dkeys} != configured {sorted(exp)}", expected=sorted(exp), got=dkeys, **info)
        return
    for k, col in exp.items():
        res = gd[k[0]][k[1]][k[2]]
        if np.shape(res) != (n,):
            rec.fail(site, f"{k}: results shape {np.shape(res)} != ({n},)", **info)
            continue
        data, mask = np.ma.getdata(res), np.ma.getmaskarray(res)
        for i in range(n):
            want = 2 if col[i] is None else col[i]
            if mask[i] or int(data[i]) != want:
                rec.fail(site, f"{k}: row {i} should be {want} in the dict form, got {'masked' if mask[i] else int(data[i])}",
                         expected=[2 if c is None else c for c in col], got=[None if m else int(d) for d, m in zip(data, mask)],
                         row=i, **info)
                break


def check_collect(case, rec):
    n = case["n"]
    groups, emitted = case["groups"], case["emitted"]
    per_key = {}
    for e in emitted:
        per_key[tuple(e["key"])] = per_key.get(tuple(e["key"]), 0) + 1
    multi = any(v >= 2 for v in per_key.values())
    empty = any(len(g) == 0 for g in groups) and bool(emitted)
    allc = any(len(g) == n for g in groups) and bool(emitted)
    absent = not all(case["axes"].values())
    perm = list(case["order"]) != sorted(case["order"])
    labels = [lab for lab, on in (("multi_context_key", multi), ("empty_group", empty), ("all_covering_group", allc),
                                  ("absent_axes", absent), ("non_identity_order", perm), ("no_results", not emitted),
                                  ("n0", n == 0), ("readonly_arrays", case.get("readonly"))) if on]
    rec.note(multi or empty or allc or absent or perm, labels)
    ident = list(range(len(emitted)))
    orders = [("identity", ident), ("given", list(case["order"])), ("reversed", ident[::-1])]
    if case.get("all_perms") and len(emitted) <= 5:
        orders = [("perm", list(p)) for p in itertools.permutations(ident)]
    seen = set()
    for tag, o in orders:
        if tuple(o) in seen:
            continue
        seen.add(tuple(o))
        verify_order(case, o, rec, tag)


@st.composite
def collect_case_thorough(draw, tier="quick"):
    c = draw(collect_case(tier))
    c["readonly"] = draw(st.booleans())
    c["all_perms"] = tier == "thorough"
    return c


SUBS = [Sub("collect", collect_case_thorough, check_collect, quick=3000, thorough=40000)]
REQUIRED_CLASSES = ["collect:multi_context_key", "collect:empty_group", "collect:all_covering_group", "collect:absent_axes",
                    "collect:non_identity_order"]
