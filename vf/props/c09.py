"""C09 - spike flags compare each interior point with its two neighbours only."""
from __future__ import annotations

import itertools

from hypothesis import strategies as st

from .. import gen, model
from ..core import SKIP, Enum, Sub
from ..util import carr, NAN, arr, compare, flags

ID = "C09"
RULE = ("cases: dyadic-grid series (plateau/ramp/spike/double-spike/alternating/free segments, NaN/None overlay), "
        "method in {average, differential}, thresholds in {absent, 0, positive} incl. fail<suspect and thresholds set "
        "exactly on / one grid step beside an interior spike magnitude; oracle = per-point reference model of the "
        "statement. non-trivial: n>=3 and (some interior d>0 lies within one grid step (1/8) of a given threshold, or "
        "fail<suspect, or exactly one threshold absent). distinct = blake2 of the canonical JSON case")
ASSUMPTIONS = [
    "values are multiples of 1/8 with |x|<=72 so midpoints, differences and thresholds are exact in float64",
    "a present interior point with a missing neighbour may be MISSING or UNKNOWN (statement silent; code gives MISSING)",
    "negative thresholds are not generated",
]
Q = 0.125


def _spike():
    from ioos_qc import qartod
    return qartod.spike_test


def interior_ds(x, method):
    out = []
    for i in range(1, len(x) - 1):
        if not (model.miss(x[i - 1]) or model.miss(x[i]) or model.miss(x[i + 1])):
            out.append(model.spike_d(x[i - 1], x[i], x[i + 1], method))
    return out


@st.composite
def spike_case(draw, tier="quick"):
    max_n = 40 if tier == "quick" else 80
    x = draw(gen.series(max_n=max_n, min_n=1))
    method = draw(st.sampled_from(["average", "differential"]))
    ds = sorted({d for d in interior_ds(x, method) if d > 0})

    def thr():
        choices = [st.none(), st.just(0), gen.pos_dyadic(3, 16), st.integers(1, 8)]
        if ds:
            d = draw(st.sampled_from(ds))
            choices += [st.just(d), st.just(d), st.just(d + Q), st.just(max(d - Q, 0))]
        return draw(st.one_of(*choices))

    suspect, fail = thr(), thr()
    if draw(st.integers(0, 3)) == 0 and suspect is not None:
        fail = suspect
    return {"x": x, "suspect": suspect, "fail": fail, "method": method}


def nontrivial(case):
    x, s, f, m = case["x"], case["suspect"], case["fail"], case["method"]
    if len(x) < 3:
        return False, []
    labels = []
    ds = [d for d in interior_ds(x, m) if d > 0]
    on = any(t is not None and abs(d - t) <= Q for d in ds for t in (s, f))
    if on:
        labels.append("d_near_threshold")
    if any(t is not None and d == t for d in ds for t in (s, f)):
        labels.append("d_on_threshold")
    inv = s is not None and f is not None and f < s
    if inv:
        labels.append("fail_lt_suspect")
    one = (s is None) != (f is None)
    if one:
        labels.append("one_threshold_absent")
    if s == 0 or f == 0:
        labels.append("zero_threshold")
    if any(model.miss(v) for v in x):
        labels.append("has_missing")
    return (on or inv or one), labels


def check_spike(case, rec):
    x = case["x"]
    kw = {"method": case["method"]}
    # an absent threshold is spelled either by omission or as None
    if case["suspect"] is not None or case.get("explicit_none"):
        kw["suspect_threshold"] = case["suspect"]
    if case["fail"] is not None or case.get("explicit_none"):
        kw["fail_threshold"] = case["fail"]
    nt, labels = nontrivial(case)
    rec.note(nt, labels)
    site = "qartod.spike_test"
    got = flags(rec, site, rec.call(site, _spike(), carr(case, x), **kw), len(x))
    if got is SKIP:
        return
    allowed = model.model_spike(x, case["suspect"], case["fail"], case["method"])
    info = {}
    if case["suspect"] == 0 or case["fail"] == 0:
        info["zero_threshold"] = True
    compare(rec, site, got, allowed, **info)


bad_method = st.one_of(
    st.sampled_from(["Average", "AVERAGE", "avg", "mean", "diff", "differential ", " average", "", "median",
                     "differentiaI", "average_", "rate"]),
    st.text(min_size=0, max_size=12).filter(lambda s: s not in ("average", "differential")))


@st.composite
def badmethod_case(draw, tier="quick"):
    x = draw(gen.series(max_n=12, min_n=1))
    return {"x": x, "method": draw(bad_method), "suspect": draw(st.one_of(st.none(), gen.pos_dyadic())),
            "fail": draw(st.one_of(st.none(), gen.pos_dyadic()))}


def check_badmethod(case, rec):
    rec.note(True, ["bad_method"])
    rec.expect_raises("qartod.spike_test(method)", (ValueError,), _spike(), arr(case["x"]),
                      suspect_threshold=case["suspect"], fail_threshold=case["fail"], method=case["method"])


# ---- exhaustive sweep: all series over a 6-letter alphabet -----------------------------------------
ALPHA = [0.0, 1.0, -1.0, 2.0, -2.0, None]
THR = [None, 1.0, 2.0, 0.5]


def enum_chunks(tier):
    top = 4 if tier == "quick" else 6
    out = []
    for n in range(1, top + 1):
        for method in ("average", "differential"):
            for first in range(len(ALPHA)):
                if n >= 6:
                    for second in range(len(ALPHA)):
                        out.append({"n": n, "method": method, "first": first, "second": second})
                else:
                    out.append({"n": n, "method": method, "first": first})
    return out


def enum_cases(chunk):
    n, method, first = chunk["n"], chunk["method"], chunk["first"]
    head = [ALPHA[first]] + ([ALPHA[chunk["second"]]] if "second" in chunk else [])
    for rest in itertools.product(ALPHA, repeat=n - len(head)):
        x = [*head, *rest]
        for s in THR:
            for f in THR:
                yield {"x": x, "suspect": s, "fail": f, "method": method}


SUBS = [
    Sub("spike_model", lambda tier: gen.with_carrier(spike_case(tier)), check_spike, quick=8000, thorough=80000),
    Sub("spike_badmethod", badmethod_case, check_badmethod, quick=300, thorough=3000, quick_shards=1),
]
ENUMS = [
    Enum("spike_alphabet", enum_chunks, enum_cases, check_spike,
         describe="all series of length 1..6 (quick: 1..4) over {0,+-1,+-2,missing} x both methods x thresholds "
                  "{absent,0.5,1,2}^2", tiers=("quick", "thorough")),
]
REQUIRED_CLASSES = ["spike_model:d_on_threshold", "spike_model:fail_lt_suspect", "spike_model:one_threshold_absent",
                    "spike_model:has_missing"]
