"""C04 - aggregation reports, per point, the worst flag any test produced."""
from __future__ import annotations

import itertools
import math

import numpy as np
from hypothesis import strategies as st

from .. import gen, model
from ..core import SKIP, Enum, Sub
from ..util import flags

ID = "C04"
RULE = ("k=1..6 equal-length vectors (length 0..30) over flags {1,2,3,4,9}, non-flags {0,5,6,7,8,200, NaN, 2.5} and "
        "masked entries (mask over arbitrary - often flag-valued - junk), as uint8/int64/float64 ndarrays or masked "
        "arrays; oracle = pointwise precedence model MISSING<UNKNOWN<GOOD<SUSPECT<FAIL over unmasked flag-valued entries, "
        "plus the laws permutation-, duplication-invariance, idempotence, associativity over every split, "
        "aggregate(objects) == the model, and the roll-up PandasStore.compute_aggregate() derives from the same vectors "
        "delivered as results of up to three interleaved streams == the model. non-trivial: >=2 vectors that disagree at some position, or a "
        "masked / non-flag entry present. Exhaustive: alphabet {1,2,3,4,9,0,7,masked}, k<=3, length<=2")
ASSUMPTIONS = ["vectors are 1-d numpy (masked) arrays of equal length, as the function asserts"]

FLAGS = [1, 2, 3, 4, 9]
NONFLAGS_INT = [0, 5, 6, 7, 8, 200]
# (values congruent to a flag modulo 256 / 65536 are non-flags too: a narrowing cast must not turn them into flags)
NONFLAGS_SIGNED = [0, 5, 7, 200, -1, -4, -6, -7, -8, -9, 10, 11, 13, 257, 260, 265, 513, 65545, -252, -247, 2 ** 32 + 4]
NONFLAGS_FLOAT = [0.0, 5.0, 7.0, 200.0, float("nan"), 2.5, -1.0, -6.0, -7.0, -8.0, -9.0, 10.0, 1e9, 260.0, 265.0, 3.999, 4.5]


def _cmp():
    from ioos_qc import qartod
    return qartod.qartod_compare


@st.composite
def vec(draw, n):
    dtype = draw(st.sampled_from(["uint8", "uint8", "int64", "float64"]))
    non = NONFLAGS_FLOAT if dtype == "float64" else (NONFLAGS_SIGNED if dtype == "int64" else NONFLAGS_INT)
    style = draw(st.sampled_from(["flags", "flags", "mixed", "const"]))
    if style == "const":
        v = draw(st.sampled_from(FLAGS))
        vals = [v] * n
    elif style == "flags":
        vals = draw(st.lists(st.sampled_from(FLAGS), min_size=n, max_size=n))
    else:
        vals = draw(st.lists(st.one_of(st.sampled_from(FLAGS), st.sampled_from(non)), min_size=n, max_size=n))
    if dtype == "float64":
        vals = [float(v) for v in vals]
    masked = draw(st.sampled_from([None, None, "none", "some", "all"]))
    mask = None
    if masked == "none":
        mask = [False] * n
    elif masked == "all":
        mask = [True] * n
    elif masked == "some":
        mask = draw(st.lists(st.booleans(), min_size=n, max_size=n))
    return {"dtype": dtype, "vals": vals, "mask": mask}


@st.composite
def compare_case(draw, tier="quick"):
    n = draw(gen.length(30))
    k = draw(st.integers(1, 6))
    vs = [draw(vec(n)) for _ in range(k)]
    perm = draw(st.permutations(list(range(k))))
    dup = draw(st.lists(st.integers(0, k - 1), max_size=3))
    split = draw(st.integers(1, k - 1)) if k > 1 else 0
    # which stream each vector is a test result of (interleaved streams are the norm: [a, b, a])
    streams = draw(st.lists(st.sampled_from(["a", "b", "c"]), min_size=k, max_size=k))
    return {"vectors": vs, "perm": perm, "dup": dup, "split": split, "streams": streams}


def build(v):
    a = np.array(v["vals"], dtype=v["dtype"])
    if v["mask"] is not None:
        a = np.ma.MaskedArray(a, mask=np.array(v["mask"], dtype=bool))
    return a


def logical(v):
    """list of entries, None where masked."""
    m = v["mask"] or [False] * len(v["vals"])
    return [None if mm else x for x, mm in zip(v["vals"], m)]


def _isflag(e):
    return e is not None and not (isinstance(e, float) and math.isnan(e)) and e in (1, 2, 3, 4, 9)


def check_compare(case, rec):
    vs = case["vectors"]
    n = len(vs[0]["vals"])
    logs = [logical(v) for v in vs]
    disagree = any(len({(None if not _isflag(l[i]) else int(l[i])) for l in logs}) > 1 for i in range(n)) and len(vs) >= 2
    special = any(not _isflag(e) for l in logs for e in l)
    labels = [f"k={len(vs)}"]
    if disagree:
        labels.append("vectors_disagree")
    if special:
        labels.append("masked_or_nonflag")
    if any(v["mask"] is not None and any(v["mask"]) and any(_isflag(x) and m for x, m in zip(v["vals"], v["mask"]))
           for v in vs):
        labels.append("flag_valued_junk_under_mask")
    ss = case.get("streams") or []
    if any(ss[i] == ss[j] and any(x != ss[i] for x in ss[i + 1:j]) for i in range(len(ss)) for j in range(i + 2, len(ss))):
        labels.append("interleaved_streams")
    rec.note(disagree or special, labels)
    site = "qartod.qartod_compare"
    arrs = [build(v) for v in vs]
    want = model.model_compare(logs)
    allowed = [{w} for w in want]

    def run(vecs, what):
        got = flags(rec, site, rec.call(site, _cmp(), vecs), n, law=what)
        if got is SKIP:
            return None
        for i, (g, a) in enumerate(zip(got, allowed)):
            if g not in a:
                rec.fail(site, f"{what}: index {i}: got {g}, worst evaluated flag is {sorted(a)}", expected=want, got=got,
                         index=i, law=what)
                return None
        return got

    base = run(arrs, "model")
    if base is None:
        return
    run([arrs[i] for i in case["perm"]], "permutation")
    run(arrs + [arrs[i] for i in case["dup"]], "duplication")
    # idempotence on flag-only unmasked vectors
    for a, l in zip(arrs, logs):
        if all(_isflag(e) for e in l):
            got = flags(rec, site, rec.call(site, _cmp(), [a]), n, law="idempotence")
            if got is not SKIP and got != [int(e) for e in l]:
                rec.fail(site, "idempotence: compare([v]) != v", expected=[int(e) for e in l], got=got, law="idempotence")
            break
    # associativity
    if case["split"]:
        s = case["split"]
        ra = rec.call(site, _cmp(), arrs[:s])
        rb = rec.call(site, _cmp(), arrs[s:])
        if ra is not SKIP and rb is not SKIP:
            got = flags(rec, site, rec.call(site, _cmp(), [ra, rb]), n, law="associativity")
            if got is not SKIP and got != want:
                rec.fail(site, "associativity: compare([compare(A), compare(B)]) != compare(A+B)", expected=want, got=got,
                         law="associativity")
    # aggregate() over result objects
    from ioos_qc import qartod
    from ioos_qc.results import CallResult, CollectedResult
    from ioos_qc import argo, axds
    # the results of real tests, as a run produces them (qartod, argo and axds functions alike)
    fns = [qartod.gross_range_test, argo.pressure_increasing_test, qartod.spike_test, axds.valid_range_test,
           argo.speed_test, qartod.flat_line_test]
    objs = [CollectedResult(stream_id="s", package=fns[i % 6].__module__.split(".")[-1], test=fns[i % 6].__name__ + ("" if i < 6 else str(i)),
                            function=fns[i % 6], results=a) for i, a in enumerate(arrs)]
    got = flags(rec, "qartod.aggregate", rec.call("qartod.aggregate", qartod.aggregate, objs), n, law="aggregate")
    if got is not SKIP and got != want:
        rec.fail("qartod.aggregate", "aggregate(objects) != worst flag per point", expected=want, got=got, law="aggregate")
    # the roll-up column a PandasStore computes over the collected results of several (interleaved) streams
    from ioos_qc.stores import PandasStore
    from ioos_qc.results import ContextResult
    sids = case.get("streams") or ["a", "b", "a", "c", "b", "a"][:len(arrs)]
    zero = np.zeros(n, dtype="float64")
    ctxs = [ContextResult(stream_id=sid, results=[CallResult(package=fns[i % 6].__module__.split(".")[-1],
                                                             test=fns[i % 6].__name__ + ("" if i < 6 else str(i)),
                                                             function=fns[i % 6], results=np.ma.array(a))],
                          subset_indexes=np.ones(n, dtype=bool), data=zero, tinp=zero.astype("datetime64[s]"), zinp=zero,
                          lat=zero, lon=zero) for i, (sid, a) in enumerate(zip(sids, arrs))]

    def rollup():
        store = PandasStore(ctxs)
        store.compute_aggregate()
        return store.collected_results[-1].results
    site2 = "PandasStore.compute_aggregate"
    got = flags(rec, site2, rec.call(site2, rollup), n, law="store_rollup")
    if got is not SKIP and got != want:
        rec.fail(site2, "roll-up over the collected results != worst flag per point", expected=want, got=got, law="store_rollup",
                 streams=sids)


ALPHA = [1, 2, 3, 4, 9, 0, 7, None]


def enum_chunks(tier):
    ks = (1, 2) if tier == "quick" else (1, 2, 3)
    return [{"k": k, "n": n, "first": f} for k in ks for n in (1, 2) for f in range(len(ALPHA))]


def enum_cases(chunk):
    k, n, f = chunk["k"], chunk["n"], chunk["first"]
    for rest in itertools.product(ALPHA, repeat=k * n - 1):
        flat = [ALPHA[f], *rest]
        vs = []
        for j in range(k):
            part = flat[j * n:(j + 1) * n]
            mask = [e is None for e in part]
            # junk under the mask: the worst flag, so that a mask-ignoring implementation is exposed
            vs.append({"dtype": "uint8", "vals": [4 if e is None else e for e in part], "mask": mask if any(mask) else None})
        yield {"vectors": vs, "perm": list(range(k))[::-1], "dup": [0], "split": 1 if k > 1 else 0}


SUBS = [Sub("compare", compare_case, check_compare, quick=4000, thorough=60000)]
ENUMS = [Enum("compare_alphabet", enum_chunks, enum_cases, check_compare,
              describe="every tuple of k<=3 vectors of length<=2 over {1,2,3,4,9,0,7,masked(junk=4)} (8^6 + smaller): "
                       "contains the full 5x5 precedence table (quick tier: k<=2)", tiers=("quick", "thorough"))]
REQUIRED_CLASSES = ["compare:interleaved_streams", "compare:vectors_disagree", "compare:masked_or_nonflag", "compare:flag_valued_junk_under_mask"]
