"""C11 - flat-line flags a point when the window ending at it varies less than tolerance."""
from __future__ import annotations

import itertools

from hypothesis import strategies as st

from .. import gen, model
from ..core import SKIP, Enum, Sub
from ..util import carr, arr, compare, epoch32, flags, tarr

ID = "C11"
RULE = ("regular axes with step D in {1,2,7,60,900,3600}; n=0..30; series of plateau/step/noise segments over a 3-5 letter "
        "dyadic alphabet with missing; (suspect, fail) durations from {0, D-1, D, D+1, 2D, 2D+1, .., (n+1)D} incl. "
        "non-multiples, shorter than one step, longer than the series, fail<suspect; tolerance drawn on, one grid step "
        "above and below the window ranges present. oracle = per-point model (k=floor(threshold/D), range of present "
        "values in x[n-k..n] < tolerance, FAIL overrides SUSPECT, n<3 never flagged). non-trivial: some plateau length in "
        "{k,k+1}, or series length in {k,k+1}, or a duration not a multiple of D, or a window containing a missing value")
ASSUMPTIONS = ["sampling is regular (the statement's premise)", "dyadic values: window ranges and tolerances compare exactly"]
Q = 0.125
# from 8 Hz to weekly sampling (fractional steps are dyadic, so that thresholds / step is exact)
STEPS = [1, 2, 7, 60, 900, 3600, 3600, 86400, 90000, 129600, 604800, 0.5, 1.5, 0.125, 2.5]


def kof(thr, D):
    from fractions import Fraction
    import math
    return math.floor(Fraction(thr) / Fraction(D))


def _fl():
    from ioos_qc import qartod
    return qartod.flat_line_test


@st.composite
def flat_series(draw, n):
    alpha = draw(st.lists(gen.dyadic(3, -8, 8), min_size=3, max_size=5, unique=True))
    out = []
    while len(out) < n:
        kind = draw(st.sampled_from(["plateau", "plateau", "plateau", "noise", "wiggle"]))
        ln = draw(st.integers(1, 9))
        a = draw(st.sampled_from(alpha))
        if kind == "plateau":
            out += [a] * ln
        elif kind == "wiggle":
            w = draw(st.sampled_from([Q, 2 * Q, 4 * Q]))
            out += [a + (w if draw(st.booleans()) else 0) for _ in range(ln)]
        else:
            out += draw(st.lists(st.sampled_from(alpha), min_size=ln, max_size=ln))
    return out[:n]


def plateau_lengths(x):
    out, run = set(), 0
    prev = object()
    for v in x:
        if not model.miss(v) and v == prev:
            run += 1
        else:
            if run:
                out.add(run)
            run = 1 if not model.miss(v) else 0
        prev = v
    if run:
        out.add(run)
    return out


def window_ranges(x, k):
    out = set()
    for i in range(k, len(x)):
        w = [v for v in x[i - k:i + 1] if not model.miss(v)]
        if w:
            out.add(max(w) - min(w))
    return out


@st.composite
def flat_case(draw, tier="quick"):
    n = draw(gen.length(30 if tier == "quick" else 50))
    D = draw(st.sampled_from(STEPS))
    x = draw(flat_series(n))
    x = draw(gen.overlay_missing(x))
    durs = [0, max(D - 1, 0), D, D + 1, 2 * D, 2 * D + 1, 3 * D, max(3 * D - 1, 0), (n + 1) * D, n * D, max(n - 1, 0) * D]
    dur = st.one_of(st.sampled_from(durs), st.integers(0, (n + 2)).map(lambda m: m * D),
                    st.integers(0, int((n + 2) * D) + 1), st.integers(0, 8 * (n + 2)).map(lambda m: m * D / 8))
    s, f = draw(dur), draw(dur)
    if draw(st.integers(0, 9)) == 0:
        s = s + 0.5
    rs = sorted(window_ranges(x, kof(s, D)) | window_ranges(x, kof(f, D)))
    tol_choices = [st.sampled_from([0, Q, 2 * Q, 1.0, 16.0])]
    if rs:
        r = draw(st.sampled_from(rs))
        tol_choices += [st.just(r), st.just(r + Q), st.just(r + Q)]
    tol = draw(st.one_of(*tol_choices))
    t0 = draw(st.sampled_from([0, -10, 1577836800, 1582934400 - 5 * D]))
    return {"x": x, "t0": t0, "D": D, "suspect": s, "fail": f, "tol": tol,
            "tc": draw(st.sampled_from(["dt64", "dt64", "epoch", "epoch32"])), "tol_default": False}


def case_times(case):
    import numpy as np
    t = [case["t0"] + i * case["D"] for i in range(len(case["x"]))]
    if any(float(v) != int(v) for v in t):
        # sub-second sampling: instants in milliseconds / float epoch seconds
        from .. import carriers
        return np.array(t, dtype="float64") if case["tc"] in ("epoch", "epoch32") else carriers.time(t, "dt64ns")
    if case["tc"] == "epoch32":
        return epoch32(t)
    return np.array(t, dtype="int64") if case["tc"] == "epoch" else tarr(t)


def check_flat(case, rec):
    x, D, s, f, tol = case["x"], case["D"], case["suspect"], case["fail"], case["tol"]
    n = len(x)
    ks = {kof(s, D), kof(f, D)}
    pl = plateau_lengths(x)
    labels = []
    a = any(p in (k, k + 1) for p in pl for k in ks if k > 0)
    b = any(n in (k, k + 1) for k in ks)
    c = (kof(s, D) * D != s) or (kof(f, D) * D != f)
    d = any(model.miss(v) for v in x) and n >= 3
    for lab, on in (("plateau_len_k_or_k+1", a), ("series_len_k_or_k+1", b), ("duration_not_multiple", c),
                    ("has_missing", d), ("fail_lt_suspect", f < s), ("n_lt_3", n < 3)):
        if on:
            labels.append(lab)
    allowed = model.model_flat_line(x, D, s, f, tol)
    if any(al == {model.S} for al in allowed):
        labels.append("some_suspect")
    if any(al == {model.F} for al in allowed):
        labels.append("some_fail")
    rec.note(n >= 1 and (a or b or c or d), labels)
    kw = {"suspect_threshold": s, "fail_threshold": f}
    if not (case.get("tol_default") and tol == 0):
        kw["tolerance"] = tol
    site = "qartod.flat_line_test"
    got = flags(rec, site, rec.call(site, _fl(), carr(case, x), case_times(case), **kw), n, length=n)
    if got is SKIP:
        return
    compare(rec, site, got, allowed, length=n)


ALPHA = [0.0, 0.5, 1.0, None]
TOLS = [0, 0.5, 1.0, 1.5]


def enum_chunks(tier):
    top = 4 if tier == "quick" else 7
    return [{"n": n, "D": D, "first": f} for n in range(1, top + 1) for D in (1, 60) for f in range(len(ALPHA))]


def enum_cases(chunk):
    n, D = chunk["n"], chunk["D"]
    durs = [0, D, 2 * D, 3 * D + (1 if D > 1 else 0), n * D]
    for rest in itertools.product(ALPHA, repeat=n - 1):
        x = [ALPHA[chunk["first"]], *rest]
        for s in durs:
            for f in durs:
                for tol in TOLS:
                    yield {"x": x, "t0": 0, "D": D, "suspect": s, "fail": f, "tol": tol, "tc": "dt64"}


SUBS = [Sub("flat_line", lambda tier: gen.with_carrier(flat_case(tier)), check_flat, quick=8000, thorough=100000)]
ENUMS = [Enum("flat_alphabet", enum_chunks, enum_cases, check_flat,
              describe="all series of length 1..7 (quick: 1..4) over {0,0.5,1,missing} x D in {1,60} x durations "
                       "{0,D,2D,3D(+1),nD}^2 x tolerances {0,0.5,1,1.5}", tiers=("quick", "thorough"))]
REQUIRED_CLASSES = ["flat_line:plateau_len_k_or_k+1", "flat_line:series_len_k_or_k+1", "flat_line:duration_not_multiple",
                    "flat_line:has_missing", "flat_line:some_suspect", "flat_line:some_fail"]
