"""C16 - stricter thresholds never produce a better flag."""
from __future__ import annotations

import copy

from hypothesis import strategies as st

from .. import model
from ..carriers import CANON
from ..core import SKIP, Sub
from ..model import F, G, M, S, U
from ..tests import REG, any_case
from ..util import flags

ID = "C16"
RULE = ("for each threshold-driven test one data case of its own property's generator and a chain loose -> strict -> "
        "stricter built by construction (never by filtering): spans / bbox shrunk towards the inside by non-negative "
        "dyadic amounts per bound (suspect kept inside fail, strict suspect inside the loose one), spike / rate / speed / "
        "range_max thresholds lowered or absent->given, flat-line durations shortened and tolerance raised, attenuation "
        "and density thresholds raised or absent->given, valid_range span shrunk or inclusive->exclusive, climatology "
        "vspan/fspan shrunk per member with tspan/zspan fixed. oracle: pointwise severity GOOD<SUSPECT<FAIL never "
        "decreases from looser to stricter and the set of UNKNOWN/MISSING points is identical (all three pairs of the "
        "chain). non-trivial: >=1 point changes flag between two runs, or the loose run has a FAIL and the strict one adds a "
        "suspect threshold")
ASSUMPTIONS = ["dyadic grid so that shrinking / scaling is exact", "std-based attenuated thresholds are only raised, never moved across a spread by rounding (they are compared as given)"]
TESTS = ["gross_range", "valid_range", "climatology", "spike", "roc", "flat_line", "attenuated", "density", "location", "speed"]
SEV = {G: 0, S: 1, F: 2}
Q = 0.125


def grid(lo, hi):
    """dyadic value in [lo, hi] (both multiples of 1/8 or arbitrary floats with lo<=hi)."""
    a, b = int(-(-lo * 8 // 1)), int(hi * 8 // 1)
    if a > b:
        return st.just(lo)
    return st.integers(a, b).map(lambda k: k / 8)


def lower(draw, v, allow_add=True):
    """a threshold not larger than v (None = absent = infinitely loose)."""
    if v is None:
        return draw(st.one_of(st.none(), st.sampled_from([0.0, Q, 1.0, 4.0, 8.0, 64.0, 1e6]))) if allow_add else None
    return draw(st.sampled_from([v, v, v / 2, v - Q if v - Q >= 0 else v, 0.0 if v >= 0 else v, v * 0.75]))


def higher(draw, v, allow_add=True):
    """a threshold not smaller than v (None = absent)."""
    if v is None:
        return draw(st.one_of(st.none(), st.sampled_from([-4.0, -Q, 0.0, Q, 1.0]))) if allow_add else None
    return draw(st.sampled_from([v, v, v + Q, v + 1.0, v * 2 if v > 0 else v + 2.0, v + 16.0]))


def shrink_span(draw, sp, within=None):
    """a span nested inside sp (given in either order); `within` optionally bounds it further."""
    lo, hi = min(sp), max(sp)
    if within is not None:
        lo, hi = max(lo, min(within)), min(hi, max(within))
        if lo > hi:
            return None
    a = draw(st.one_of(st.just(lo), grid(lo, hi)))
    b = draw(st.one_of(st.just(hi), grid(a, hi)))
    out = [a, b]
    return out[::-1] if draw(st.booleans()) else out


def tighten(draw, name, case):
    c = copy.deepcopy(case)
    if name == "gross_range":
        flo, fhi = min(case["fail"]), max(case["fail"])
        sus = case["suspect"]
        hi_cap = fhi if sus is None else min(max(sus), fhi)
        nflo = draw(st.one_of(st.just(flo), grid(flo, hi_cap)))
        lo_cap = nflo if sus is None else max(nflo, min(sus))
        nfhi = draw(st.one_of(st.just(fhi), grid(lo_cap, fhi)))
        c["fail"] = [nflo, nfhi]
        if sus is None:
            c["suspect"] = None
            if draw(st.booleans()):
                c["suspect"] = shrink_span(draw, [nflo, nfhi])
        else:
            c["suspect"] = shrink_span(draw, sus, within=[nflo, nfhi]) or [nflo, nflo]
    elif name == "valid_range":
        lo, hi = case["lo"], case["hi"]
        isdt = case["kind"] == "dt"
        import math
        # (datetime bounds may lie on half seconds: the nested bound is a whole second inside [a, b], or a itself)
        pick = (lambda a, b: st.integers(math.ceil(a), math.floor(b)) if math.ceil(a) <= math.floor(b) else st.just(a)) if isdt else grid
        x = [v for v in case["x"] if v is not None]
        ref_lo = lo if lo is not None else (min(x) - 2 if x else 0)
        ref_hi = hi if hi is not None else (max(x) + 2 if x else ref_lo + 4)
        if ref_hi < ref_lo:
            ref_hi = ref_lo
        mode = draw(st.sampled_from(["shrink", "shrink", "incl", "same"]))
        if mode == "shrink":
            nlo = draw(pick(ref_lo, ref_hi))
            nhi = draw(pick(nlo, ref_hi))
            c["lo"] = nlo if (lo is not None or draw(st.booleans())) else None
            c["hi"] = nhi if (hi is not None or draw(st.booleans())) else None
        elif mode == "incl":
            if case.get("defaults"):
                c["defaults"] = False
                c["si"], c["ei"] = True, False
            if c["si"] and draw(st.booleans()):
                c["si"] = False
            if c["ei"]:
                c["ei"] = False
    elif name == "climatology":
        for m in c["members"]:
            v = shrink_span(draw, m["vspan"])
            m["vspan"] = v
            if m.get("fspan") is not None:
                m["fspan"] = shrink_span(draw, m["fspan"])
            elif draw(st.integers(0, 2)) == 0:
                lo, hi = min(v), max(v)
                m["fspan"] = [lo - draw(st.sampled_from([0.0, Q, 2.0])), hi + draw(st.sampled_from([0.0, Q, 2.0]))]
    elif name == "spike":
        c["suspect"] = lower(draw, case["suspect"])
        c["fail"] = lower(draw, case["fail"])
    elif name == "roc":
        c["thr"] = lower(draw, case["thr"])
    elif name == "speed":
        c["suspect"] = lower(draw, case["suspect"])
        c["fail"] = lower(draw, case["fail"])
    elif name == "flat_line":
        D = case["D"]
        for k in ("suspect", "fail"):
            v = case[k]
            c[k] = draw(st.sampled_from([v, v, max(v - D, 0), max(v - 1, 0), v // 2 if isinstance(v, int) else v / 2, 0]))
        c["tol"] = draw(st.sampled_from([case["tol"], case["tol"] + Q, case["tol"] + 1.0, case["tol"] * 2 + Q]))
    elif name == "attenuated":
        c["suspect"] = higher(draw, case["suspect"])
        c["fail"] = higher(draw, case["fail"])
    elif name == "density":
        c["suspect"] = higher(draw, case["suspect"])
        c["fail"] = higher(draw, case["fail"])
    elif name == "location":
        box = case["bbox"] or [-180.0, -90.0, 180.0, 90.0]
        if draw(st.booleans()):
            xs = shrink_span(draw, [box[0], box[2]])
            ys = shrink_span(draw, [box[1], box[3]])
            c["bbox"] = [min(xs), min(ys), max(xs), max(ys)]
        rm = case["range_max"]
        lat_ok = all(model.miss(v) or abs(v) <= 90 for v in case["lat"])
        if rm is None:
            c["range_max"] = draw(st.sampled_from([None, None, 1e3, 1e5, 1e7])) if lat_ok else None
        else:
            c["range_max"] = draw(st.sampled_from([rm, rm * 0.99, rm / 2, 0.0]))
    return c


@st.composite
def mono_case(draw, tier="quick"):
    tc = draw(any_case(tier, TESTS))
    name = tc["test"]
    strict = tighten(draw, name, tc["case"])
    stricter = tighten(draw, name, strict)
    return {"test": name, "chain": [tc["case"], strict, stricter]}


def check_mono(case, rec):
    name = case["test"]
    t = REG()[name]
    chain = case["chain"]
    n = t.n(chain[0])
    site = name
    results = []
    for k, c in enumerate(chain):
        args, kwargs = t.build(c, CANON)
        got = flags(rec, site, rec.call(site, t.func(), *args, **kwargs), n, step=k, test=name)
        if got is SKIP:
            rec.note(False, [f"test={name}"])
            return
        results.append(got)
    changed = any(results[a] != results[b] for a, b in ((0, 1), (1, 2)))
    adds_suspect = (name in ("gross_range", "spike", "density") and any(v == F for v in results[0]) and
                    chain[0].get("suspect") is None and chain[1].get("suspect") is not None)
    labels = [f"test={name}"] + (["flag_changed"] if changed else []) + (["fail_then_suspect_added"] if adds_suspect else [])
    rec.note(changed or adds_suspect, labels)
    for a, b in ((0, 1), (1, 2), (0, 2)):
        lo, st_ = results[a], results[b]
        for i in range(n):
            x, y = lo[i], st_[i]
            if x in (U, M) or y in (U, M):
                if x != y:
                    rec.fail(site, f"index {i}: not-evaluated status changed from {x} to {y} under stricter parameters",
                             expected=lo, got=st_, index=i, pair=[a, b], kind="unknown_set_changed", test=name)
            elif x in SEV and y in SEV and SEV[y] < SEV[x]:
                rec.fail(site, f"index {i}: flag improved from {x} to {y} under stricter parameters", expected=lo, got=st_,
                         index=i, pair=[a, b], kind="less_severe", test=name)


SUBS = [Sub("monotone", mono_case, check_mono, quick=6000, thorough=70000)]
REQUIRED_CLASSES = ["monotone:flag_changed", "monotone:fail_then_suspect_added"] + [f"monotone:test={t}" for t in TESTS]
