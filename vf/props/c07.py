"""C07 - every equivalent spelling of a configuration yields the same set of calls."""
from __future__ import annotations

import atexit
import copy
import io
import json
import os
import shutil
import tempfile
from collections import OrderedDict
from pathlib import Path

from hypothesis import strategies as st

from ..core import SKIP, Sub, canon, jsonable

ID = "C07"
RULE = ("config trees: 1..3 contexts, optional window (ISO strings or naive datetimes; one- or two-sided), optional GeoJSON "
        "region (geometry Point/Polygon or features list), 1..3 stream ids (identifiers, digit-leading, dotted, with spaces / "
        "unicode), modules {qartod, argo, axds} + unknown names, any subset of the real test functions with JSON-able kwargs "
        "(scalars, lists, null/{} for parameterless tests, climatology's nested list of dicts) + unknown test names. "
        "carriers: dict, OrderedDict, YAML text (block and flow), JSON text, StringIO of either, str and Path to .yaml/.json "
        "files, xarray Dataset (global ioos_qc_config attribute as YAML or JSON; per-variable ioos_qc_* attributes) and a "
        "netCDF-3 file of the same; layouts: contexts list, single context with streams, bare stream-id mapping, bare module "
        "mapping (default stream key, also generated). oracle: reference model tree -> multiset of (stream, module, test, "
        "kwargs, window, region) compared with Config(source).calls (func identity, kwargs deep-equal, shapely-equal "
        "region), contexts grouping, Call.config(); every spelling must equal the model, hence each other. non-trivial: "
        "tree contains a nested climatology list, an unknown module/test, a parameterless test, >=2 contexts or a "
        "non-identifier stream id")
ASSUMPTIONS = [
    "stream ids equal to the reserved keys streams/contexts/window/region/attrs are not generated",
    "unknown test names are identifiers that are not attributes of the module at all (names of non-test attributes such as 'np' are outside the statement)",
    "naive-datetime windows are compared only across dict/OrderedDict/YAML carriers (JSON cannot carry them)",
    "the per-variable-attribute Dataset carrier cannot express windows, regions or several contexts and is compared only on trees without them",
]

_TMP = None


def tmpdir():
    global _TMP
    if _TMP is None or not os.path.isdir(_TMP):
        _TMP = tempfile.mkdtemp(prefix="vf_c07_")
        atexit.register(shutil.rmtree, _TMP, ignore_errors=True)
    return _TMP


MODULES = {"qartod": ["gross_range_test", "spike_test", "rate_of_change_test", "flat_line_test", "attenuated_signal_test",
                      "climatology_test", "density_inversion_test", "location_test", "aggregate"],
           "argo": ["pressure_increasing_test", "speed_test"],
           "axds": ["valid_range_test"]}
UNKNOWN_MODULES = ["nosuchmodule", "qartod2", "Qartod", "glider", "qartod.extra", "qc"]
UNKNOWN_TESTS = ["no_such_test", "spike_tests", "SpikeTest", "gross_range", "range_test", "flatline_test", "speed"]

# (numbers that JSON / YAML writers spell in exponent notation belong to the alphabet: 1e-05, 1e+16, ...)
num = st.one_of(st.integers(-50, 50), st.integers(-400, 400).map(lambda k: k / 8), st.integers(-400, 400).map(lambda k: k / 8),
                st.sampled_from([1e-05, 3e-07, -2.5e-06, 1e16, -1e17, 1.5e300, 6.02e23, 1e-300, 123456789012345678]))
ISO = ["2020-01-01T00:00:00", "2020-03-01T12:30:00", "2019-12-31T23:59:59", "2021-06-15T00:00:00Z", "2020-01-01"]


@st.composite
def kwargs_for(draw, test):
    if test == "gross_range_test":
        kw = {"fail_span": [draw(num), draw(num)]}
        if draw(st.booleans()):
            kw["suspect_span"] = [draw(num), draw(num)]
        return kw
    if test == "spike_test":
        kw = {"suspect_threshold": draw(num), "fail_threshold": draw(num)}
        if draw(st.booleans()):
            kw["method"] = draw(st.sampled_from(["average", "differential"]))
        return kw
    if test == "rate_of_change_test":
        return {"threshold": draw(num)}
    if test == "flat_line_test":
        return {"suspect_threshold": draw(st.integers(0, 9000)), "fail_threshold": draw(st.integers(0, 9000)),
                "tolerance": draw(num)}
    if test == "attenuated_signal_test":
        kw = {"suspect_threshold": draw(num), "fail_threshold": draw(num)}
        if draw(st.booleans()):
            kw.update(test_period=draw(st.integers(1, 9000)), check_type=draw(st.sampled_from(["std", "range"])))
        if draw(st.booleans()):
            kw["min_obs"] = draw(st.one_of(st.none(), st.integers(1, 5)))
        return kw
    if test == "climatology_test":
        ms = []
        for _ in range(draw(st.integers(0, 3)) or draw(st.integers(0, 1))):
            m = {"vspan": [draw(num), draw(num)]}
            if draw(st.booleans()):
                m["tspan"] = [draw(st.integers(1, 12)), draw(st.integers(1, 12))]
                m["period"] = draw(st.sampled_from(["month", "week", "dayofyear", "quarter"]))
            else:
                m["tspan"] = [draw(st.sampled_from(ISO)), draw(st.sampled_from(ISO))]
            if draw(st.booleans()):
                m["fspan"] = [draw(num), draw(num)]
            if draw(st.booleans()):
                m["zspan"] = [draw(num), draw(num)]
            ms.append(m)
        return {"config": ms}
    if test == "density_inversion_test":
        return draw(st.one_of(st.just({"suspect_threshold": 0.5}), st.builds(lambda a, b: {"suspect_threshold": a, "fail_threshold": b}, num, num)))
    if test == "location_test":
        return draw(st.one_of(st.none(), st.just({}), st.builds(lambda a, b, c, d: {"bbox": [a, b, c, d]}, num, num, num, num),
                              st.builds(lambda r: {"range_max": r}, num)))
    if test in ("pressure_increasing_test", "aggregate"):
        return draw(st.sampled_from([None, {}]))
    if test == "speed_test":
        return {"suspect_threshold": draw(num), "fail_threshold": draw(num)}
    if test == "valid_range_test":
        kw = {"valid_span": [draw(num), draw(num)]}
        if draw(st.booleans()):
            kw["start_inclusive"] = draw(st.booleans())
        if draw(st.booleans()):
            kw["end_inclusive"] = draw(st.booleans())
        return kw
    return draw(st.one_of(st.none(), st.just({"a": 1}), st.just({"x": [1, 2]})))


stream_id = st.one_of(
    st.sampled_from(["temp", "salinity", "var_1", "1var", "sea.water.temp", "sea water temp", "température", "v", "_x",
                     "a.b", "a_b", "123", "T-90", "qartod", "time", "no", "on", "yes", "off", "y", "n", "NO", "0x1f", "1e3", "1_000",
                     "12:30:00", "2020-01-01"]),
    st.text(alphabet="abcxyz_019. -é", min_size=1, max_size=8).filter(lambda s: s.strip() == s and s not in RESERVED))
RESERVED = {"streams", "contexts", "window", "region", "attrs"}


@st.composite
def region(draw):
    kind = draw(st.sampled_from(["point", "polygon", "features"]))
    pt = {"type": "Point", "coordinates": [draw(num), draw(num)]}
    x, y = draw(st.integers(-50, 40)), draw(st.integers(-50, 40))
    poly = {"type": "Polygon", "coordinates": [[[x, y], [x + 5, y], [x + 5, y + 7], [x, y + 7], [x, y]]]}
    if kind == "point":
        return {"geometry": pt}
    if kind == "polygon":
        return {"geometry": poly}
    return {"features": [{"type": "Feature", "geometry": poly, "properties": {}},
                         {"type": "Feature", "geometry": pt, "properties": {}}][:draw(st.integers(1, 2))]}


@st.composite
def window(draw):
    kind = draw(st.sampled_from(["both", "both", "start", "end", "empty"]))
    a, b = draw(st.sampled_from(ISO)), draw(st.sampled_from(ISO))
    w = {}
    if kind in ("both", "start"):
        w["starting"] = a
    if kind in ("both", "end"):
        w["ending"] = b
    return w


@st.composite
def streams_block(draw):
    out = {}
    for sid in draw(st.lists(stream_id, min_size=1, max_size=3, unique=True)):
        mods = {}
        for mod in draw(st.lists(st.sampled_from(list(MODULES) + list(MODULES) + UNKNOWN_MODULES), min_size=1, max_size=3,
                                 unique=True)):
            pool = MODULES.get(mod, ["gross_range_test", "some_test"]) + UNKNOWN_TESTS[:3]
            # names that are tests of *another* module are unknown here
            pool = pool + [t for m2, ts in MODULES.items() if m2 != mod for t in ts[:2]]
            if mod == "qartod":
                pool = pool + ["climatology_test", "climatology_test"]
            tests = {}
            for tname in draw(st.lists(st.sampled_from(pool), min_size=1, max_size=3, unique=True)):
                tests[tname] = draw(kwargs_for(tname))
            mods[mod] = tests
        out[sid] = mods
    return out


@st.composite
def config_tree(draw, tier="quick"):
    nctx = draw(st.sampled_from([1, 1, 1, 2, 3]))
    ctxs = []
    for _ in range(nctx):
        ctx = {"streams": draw(streams_block())}
        if draw(st.integers(0, 2)) == 0:
            ctx["window"] = draw(window())
        if draw(st.integers(0, 3)) == 0:
            ctx["region"] = draw(region())
        ctxs.append(ctx)
    if nctx == 3 and draw(st.integers(0, 1)) == 0:
        # the same context (window and region) again, not adjacent in the list: [A, B, A']
        for k in ("window", "region"):
            ctxs[2].pop(k, None)
            if k in ctxs[0]:
                ctxs[2][k] = copy.deepcopy(ctxs[0][k])
        if all(ctxs[1].get(k) == ctxs[0].get(k) for k in ("window", "region")):
            ctxs[1]["window"] = {"starting": "2001-01-01T00:00:00", "ending": "2002-01-01T00:00:00"}
    if nctx == 1 and draw(st.booleans()):
        # make the bare layouts reachable often
        ctxs[0].pop("window", None)
        ctxs[0].pop("region", None)
        if draw(st.booleans()):
            sid = next(iter(ctxs[0]["streams"]))
            ctxs[0]["streams"] = {sid: ctxs[0]["streams"][sid]}
    if draw(st.integers(0, 5)) == 0:
        # every test without parameters (null): the shallowest possible tree
        for c in ctxs:
            for mods in c["streams"].values():
                for ts in mods.values():
                    for k in ts:
                        ts[k] = None
    return {"contexts": ctxs, "default_key": draw(st.sampled_from(["_stream", "_stream", "mystream", "x"])),
            "dt_window": draw(st.integers(0, 5)) == 0,
            "pick": draw(st.lists(st.integers(0, 3), min_size=16, max_size=16))}


# ---- model -------------------------------------------------------------------------------------
def known(mod, test):
    import importlib
    if mod not in MODULES:
        return False
    return hasattr(importlib.import_module(f"ioos_qc.{mod}"), test)


def region_geom(reg):
    from shapely.geometry import GeometryCollection, shape
    if reg is None:
        return None
    if "features" in reg:
        return GeometryCollection([shape(f["geometry"]) for f in reg["features"]])
    return GeometryCollection([shape(reg["geometry"])])


def conv_window(w, as_dt):
    if w is None:
        return (None, None)
    def cv(v):
        if v is None or not as_dt:
            return v
        import datetime as dtm
        s = v.rstrip("Z")
        return dtm.datetime.fromisoformat(s)
    return (cv(w.get("starting")), cv(w.get("ending")))


def model_calls(tree, default_key=None, single_stream_as_default=False):
    out = []
    for ctx in tree["contexts"]:
        win = conv_window(ctx.get("window"), tree.get("dt_window"))
        reg = region_geom(ctx.get("region"))
        for sid, mods in ctx["streams"].items():
            for mod, tests in mods.items():
                for tname, kw in tests.items():
                    if known(mod, tname):
                        out.append({"stream": default_key if single_stream_as_default else sid, "module": mod, "test": tname,
                                    "kwargs": kw or {}, "window": [str(win[0]) if win[0] is not None else None,
                                                                   str(win[1]) if win[1] is not None else None],
                                    "region": reg.wkt if reg is not None else None})
    return out


def observed_calls(cfg):
    out = []
    import importlib
    for c in cfg.calls:
        mod = importlib.import_module(f"ioos_qc.{c.module}")
        out.append({"stream": c.stream_id, "module": c.module, "test": c.method, "kwargs": jsonable(dict(c.kwargs)),
                    "window": [str(c.window.starting) if c.window.starting is not None else None,
                               str(c.window.ending) if c.window.ending is not None else None],
                    "region": c.region.wkt if c.region is not None else None,
                    "_func_ok": c.func is getattr(mod, c.method, None), "_args_ok": c.args == ((),),
                    "_config_ok": jsonable(c.config()) == {c.module: {c.method: jsonable(dict(c.kwargs))}}})
    return out


def ms(calls):
    return sorted(canon({k: v for k, v in c.items() if not k.startswith("_")}) for c in calls)


# ---- spellings ---------------------------------------------------------------------------------
def with_dt(tree):
    """python-object form of the tree: windows as naive datetimes when requested."""
    t = copy.deepcopy(tree)
    if tree.get("dt_window"):
        for ctx in t["contexts"]:
            if "window" in ctx:
                s, e = conv_window(ctx["window"], True)
                w = {}
                if "starting" in ctx["window"]:
                    w["starting"] = s
                if "ending" in ctx["window"]:
                    w["ending"] = e
                ctx["window"] = w
    return t


def layouts(tree):
    """-> list of (layout name, python config object, uses default stream key?)"""
    t = with_dt(tree)
    ctxs = t["contexts"]
    out = [("contexts", {"contexts": ctxs}, False)]
    if len(ctxs) == 1:
        out.append(("single_context", dict(ctxs[0]), False))
        c = ctxs[0]
        if "window" not in c and "region" not in c:
            out.append(("bare_streams", c["streams"], False))
            if len(c["streams"]) == 1:
                out.append(("bare_modules", next(iter(c["streams"].values())), True))
    return out


def yaml_text(obj, flow=False):
    from ruamel.yaml import YAML
    y = YAML(typ="safe")
    y.default_flow_style = flow
    buf = io.StringIO()
    y.dump(obj, buf)
    return buf.getvalue()


def to_odict(o):
    if isinstance(o, dict):
        return OrderedDict((k, to_odict(v)) for k, v in o.items())
    if isinstance(o, list):
        return [to_odict(v) for v in o]
    return o


_counter = [0]


def fresh(ext):
    _counter[0] += 1
    return os.path.join(tmpdir(), f"c{os.getpid()}_{_counter[0]}{ext}")


def carriers_for(obj, has_dt, layout, tree):
    """-> list of (carrier name, zero-arg builder of the source, cleanup path or None)"""
    import xarray as xr
    out = [("dict", lambda: copy.deepcopy(obj)), ("odict", lambda: to_odict(copy.deepcopy(obj))),
           ("yaml_block", lambda: yaml_text(obj)), ("yaml_flow", lambda: yaml_text(obj, True)),
           ("stringio_yaml", lambda: io.StringIO(yaml_text(obj)))]

    def yaml_file(as_path):
        p = fresh(".yaml")
        Path(p).write_text(yaml_text(obj))
        return Path(p) if as_path else p
    out += [("path_str_yaml", lambda: yaml_file(False)), ("path_obj_yaml", lambda: yaml_file(True))]
    if not has_dt:
        js = lambda: json.dumps(obj)  # noqa: E731

        def json_file(as_path):
            p = fresh(".json")
            Path(p).write_text(js())
            return Path(p) if as_path else p

        def nc_file(text):
            p = fresh(".nc")
            xr.Dataset({"v": ("t", [1.0, 2.0])}, attrs={"ioos_qc_config": text}).to_netcdf(p, engine="scipy")
            return p
        out += [("json_text", js), ("stringio_json", lambda: io.StringIO(js())),
                ("path_str_json", lambda: json_file(False)), ("path_obj_json", lambda: json_file(True)),
                ("xr_global_json", lambda: xr.Dataset({"v": ("t", [1.0, 2.0])}, attrs={"ioos_qc_config": js()})),
                ("xr_global_yaml", lambda: xr.Dataset({"v": ("t", [1.0, 2.0])}, attrs={"ioos_qc_config": yaml_text(obj)})),
                ("netcdf_global_json", lambda: nc_file(js())), ("netcdf_global_yaml", lambda: nc_file(yaml_text(obj)))]
    if layout == "bare_streams":
        def xr_vars(to_file):
            dv = {}
            k = 0
            for sid, mods in obj.items():
                for mod, tests in mods.items():
                    for tname, kw in tests.items():
                        k += 1
                        dv[f"qc{k}"] = xr.DataArray([1, 2], dims="t", attrs={
                            "ioos_qc_module": mod, "ioos_qc_test": tname, "ioos_qc_target": sid,
                            "ioos_qc_config": json.dumps(kw if kw is not None else {})})
            ds = xr.Dataset(dv)
            if to_file:
                p = fresh(".nc")
                ds.to_netcdf(p, engine="scipy")
                return p
            return ds
        if not has_dt:
            out += [("xr_variable_attrs", lambda: xr_vars(False)), ("netcdf_variable_attrs", lambda: xr_vars(True))]
    return out


def tree_labels(tree):
    labs = []
    tests = [(sid, mod, t, kw) for c in tree["contexts"] for sid, mods in c["streams"].items() for mod, ts in mods.items()
             for t, kw in ts.items()]
    if any(t == "climatology_test" and kw and kw.get("config") for _, _, t, kw in tests):
        labs.append("nested_climatology")
    if any(not known(mod, t) for _, mod, t, _ in tests):
        labs.append("unknown_module_or_test")
    if any(kw is None or kw == {} for _, _, _, kw in tests):
        labs.append("parameterless_test")
    if len(tree["contexts"]) >= 2:
        labs.append("multi_context")
    if any(not sid.isidentifier() for sid, _, _, _ in tests):
        labs.append("non_identifier_stream")
    if any("window" in c for c in tree["contexts"]):
        labs.append("window")
    if any("region" in c for c in tree["contexts"]):
        labs.append("region")
    return labs


def check_tree(tree, rec):
    from ioos_qc.config import Config
    labs = tree_labels(tree)
    nontriv = any(l in labs for l in ("nested_climatology", "unknown_module_or_test", "parameterless_test", "multi_context",
                                      "non_identifier_stream"))
    lays = layouts(tree)
    has_dt = bool(tree.get("dt_window")) and any("window" in c for c in tree["contexts"])
    rec.note(nontriv, labs + [f"layouts={len(lays)}"] + (["datetime_window"] if has_dt else []))
    dk = tree["default_key"]
    picks = list(tree.get("pick", [0] * 16))
    all_null = all(kw is None for c in tree["contexts"] for mods in c["streams"].values() for ts in mods.values()
                   for kw in ts.values())
    for li, (lname, obj, uses_default) in enumerate(lays):
        want = model_calls(tree, dk, uses_default)
        want_ms = ms(want)
        cars = carriers_for(obj, has_dt, lname, tree)
        # every layout through dict; every carrier through (at least) one layout chosen by the case
        chosen = []
        for ci, (cname, build) in enumerate(cars):
            if cname == "dict" or picks[ci % len(picks)] % len(lays) == li or cname.endswith("variable_attrs"):
                chosen.append((cname, build))
        for cname, build in chosen:
            site = "Config"
            info = {"carrier": cname, "layout": lname, "all_kwargs_null": all_null}
            try:
                src = build()
                kw = {"default_stream_key": dk} if dk != "_stream" else {}
                cfg = Config(src, **kw)
                got = observed_calls(cfg)
            except Exception as e:
                rec.fail(site, f"{lname}/{cname}: raised {type(e).__name__}: {str(e)[:200]}", expected=want, raised=True,
                         exc=type(e).__name__, **info)
                continue
            finally:
                pass
            w_ms = want_ms
            if cname.endswith("variable_attrs"):
                # this carrier spells "no parameters" as {} only
                w_ms = ms([dict(c) for c in want])
            if ms(got) != w_ms:
                rec.fail(site, f"{lname}/{cname}: calls differ from the configured (stream, module, test, kwargs, window, region) set",
                         expected=want, got=[{k: v for k, v in c.items() if not k.startswith('_')} for c in got], **info)
                continue
            if cname in ("dict", "odict"):
                # the caller's in-memory object is a spelling like any other: loading the very same object again (a
                # config kept in a module constant and used for every deployment) must give the same calls
                try:
                    again = observed_calls(Config(src, **kw))
                except Exception as e:
                    rec.fail(site, f"{lname}/{cname}: loading the same source object a second time raised {type(e).__name__}: {str(e)[:200]}",
                             expected=want, raised=True, exc=type(e).__name__, second_load=True, **info)
                    continue
                if ms(again) != w_ms:
                    rec.fail(site, f"{lname}/{cname}: loading the same source object a second time gives different calls",
                             expected=want, got=[{k: v for k, v in c.items() if not k.startswith('_')} for c in again],
                             second_load=True, **info)
                    continue
            bad = [c for c in got if not (c["_func_ok"] and c["_args_ok"] and c["_config_ok"])]
            if bad:
                rec.fail(site, f"{lname}/{cname}: a call does not name the configured function / config()", got=bad[0], **info)
                continue
            # grouping into contexts: one group per distinct (window, region)
            groups = {}
            for c in want:
                groups.setdefault((tuple(c["window"]), c["region"]), 0)
                groups[(tuple(c["window"]), c["region"])] += 1
            try:
                got_groups = sorted(len(v) for v in cfg.contexts.values())
            except Exception as e:
                rec.fail(site, f"{lname}/{cname}: Config.contexts raised {type(e).__name__}: {e}", raised=True, **info)
                continue
            if got_groups != sorted(groups.values()):
                rec.fail(site, f"{lname}/{cname}: Config.contexts grouping {got_groups} != {sorted(groups.values())}",
                         expected=sorted(groups.values()), got=got_groups, grouping=True, **info)
    # remove files written for this case
    d = tmpdir()
    for f in os.listdir(d):
        if f.startswith(f"c{os.getpid()}_"):
            try:
                os.unlink(os.path.join(d, f))
            except OSError:
                pass


SUBS = [Sub("spellings", config_tree, check_tree, quick=800, thorough=8000)]
REQUIRED_CLASSES = ["spellings:nested_climatology", "spellings:unknown_module_or_test", "spellings:parameterless_test",
                    "spellings:multi_context", "spellings:non_identifier_stream", "spellings:layouts=4", "spellings:window",
                    "spellings:region"]
