"""Uniform registry of the QC test functions: case strategy, argument builder (per carrier), reference model.

Used by the cross-cutting properties (C01, C02, C15, C16, C17); the per-test properties keep their own checks.
"""
from __future__ import annotations

from dataclasses import dataclass
from fractions import Fraction
from typing import Callable, Optional

import numpy as np

from . import model
from .carriers import CANON, Carrier


@dataclass
class T:
    name: str
    func: Callable  # () -> the ioos_qc function
    strat: Callable  # (tier) -> strategy of cases
    build: Callable  # (case, Carrier) -> (args, kwargs)
    model: Callable  # (case) -> list of allowed sets, or None when the oracle declines (ambiguous)
    obs: tuple  # keys of the observation series in the case
    aux: tuple = ()  # keys of auxiliary series (depth)
    timed: bool = False
    documents_missing: bool = True
    length: Callable = None  # (case) -> n

    def n(self, case):
        return len(case[self.obs[0]])

    def call(self, case, C: Carrier = CANON):
        args, kwargs = self.build(case, C)
        return self.func()(*args, **kwargs)


def _q():
    from ioos_qc import qartod
    return qartod


def _argo():
    from ioos_qc import argo
    return argo


def _axds():
    from ioos_qc import axds
    return axds


def times_of(case):
    if "t" in case:
        return case["t"]
    if "t0" in case:
        return [case["t0"] + i * case["D"] for i in range(len(case["x"]))]
    return None


# ---- builders ----------------------------------------------------------------------------------

def b_gross(case, C):
    kw = {"fail_span": C.s(case["fail"])}
    if case["suspect"] is not None:
        kw["suspect_span"] = C.s(case["suspect"])
    return (C.d(case["x"]),), kw


def b_spike(case, C):
    kw = {"method": case["method"]}
    if case["suspect"] is not None:
        kw["suspect_threshold"] = case["suspect"]
    if case["fail"] is not None:
        kw["fail_threshold"] = case["fail"]
    return (C.d(case["x"]),), kw


def b_roc(case, C):
    return (C.d(case["x"]), C.t(case["t"]), case["thr"]), {}


def b_flat(case, C):
    return (C.d(case["x"]), C.t(times_of(case))), {"suspect_threshold": case["suspect"], "fail_threshold": case["fail"],
                                                    "tolerance": case["tol"]}


def b_att(case, C):
    kw = {"suspect_threshold": case["suspect"], "fail_threshold": case["fail"], "check_type": case["check"]}
    for k, name in (("period", "test_period"), ("min_obs", "min_obs"), ("min_period", "min_period")):
        if case.get(k) is not None:
            kw[name] = case[k]
    return (C.d(case["x"]), C.t(case["t"])), kw


def b_density(case, C):
    kw = {}
    if case["suspect"] is not None:
        kw["suspect_threshold"] = case["suspect"]
    if case["fail"] is not None:
        kw["fail_threshold"] = case["fail"]
    return (C.d(case["rho"]), C.a(case["z"])), kw


def b_pressure(case, C):
    return (C.d(case["p"]),), {}


def b_location(case, C):
    kw = {}
    if case["bbox"] is not None:
        kw["bbox"] = C.s(case["bbox"])
    if case["range_max"] is not None:
        kw["range_max"] = case["range_max"]
    return (C.d(case["lon"]), C.d(case["lat"])), kw


def b_speed(case, C):
    return (C.d(case["lon"]), C.d(case["lat"]), C.t(case["t"]), case["suspect"], case["fail"]), {}


def b_clim(case, C):
    from .props import c08
    ms = c08.render_members(case["members"])
    if C.span_kind == "list":
        ms = [{k: (list(v) if isinstance(v, tuple) else v) for k, v in m.items()} for m in ms]
    if case.get("cfg") == "object":
        cfg = _q().ClimatologyConfig()
        for d in ms:
            cfg.add(**d)
    else:
        cfg = ms
    return (cfg, C.d(case["x"]), C.t(case["t"]), C.a(case["z"])), {}


def b_valid(case, C):
    from .props import c03
    a, span = c03._valid_inputs(case)
    kw = {} if case.get("defaults") else {"start_inclusive": case["si"], "end_inclusive": case["ei"]}
    return (a, span), kw


# ---- models ------------------------------------------------------------------------------------

def m_gross(case):
    return model.model_gross_range(case["x"], case["fail"], case["suspect"])


def m_spike(case):
    return model.model_spike(case["x"], case["suspect"], case["fail"], case["method"])


def m_roc(case):
    from .props import c10
    fthr = Fraction(case["thr"])
    for r in c10.roc_rates(case["x"], case["t"]):
        if r != fthr and fthr != 0 and abs(r - fthr) < Fraction(1, 2 ** 50) * fthr:
            return None
    return model.model_roc(case["x"], case["t"], case["thr"])


def m_flat(case):
    return model.model_flat_line(case["x"], case["D"], case["suspect"], case["fail"], case["tol"])


def m_att(case):
    from .props import c12
    allowed, spreads, _ = c12.model_att(case)
    if case["check"] == "std":
        for sp in spreads:
            if abs(sp - case["suspect"]) <= 1e-4 or abs(sp - case["fail"]) <= 1e-4:
                return None
    return allowed


def m_density(case):
    return model.model_density(case["rho"], case["z"], case["suspect"], case["fail"])


def m_pressure(case):
    return model.model_pressure(case["p"])


def m_location(case):
    return model.model_location(case["lon"], case["lat"], case["bbox"] or [-180.0, -90.0, 180.0, 90.0], case["range_max"])


def m_speed(case):
    return model.model_speed(case["lon"], case["lat"], case["t"], case["suspect"], case["fail"])


def m_clim(case):
    return model.model_climatology(case["members"], case["x"], case["t"], case["z"])[0]


def m_valid(case):
    si, ei = (True, False) if case.get("defaults") else (case["si"], case["ei"])
    return model.model_valid_range(case["x"], case["lo"], case["hi"], si, ei)


def registry():
    from .props import c03, c08, c09, c10, c11, c12, c13, c14
    return {
        "gross_range": T("gross_range", lambda: _q().gross_range_test, c03.gross_case, b_gross, m_gross, ("x",)),
        "valid_range": T("valid_range", lambda: _axds().valid_range_test, c03.valid_case, b_valid, m_valid, ("x",)),
        "climatology": T("climatology", lambda: _q().climatology_test, c08.clim_case, b_clim, m_clim, ("x",), ("z",), True),
        "spike": T("spike", lambda: _q().spike_test, c09.spike_case, b_spike, m_spike, ("x",)),
        "roc": T("roc", lambda: _q().rate_of_change_test, c10.roc_case, b_roc, m_roc, ("x",), (), True),
        "flat_line": T("flat_line", lambda: _q().flat_line_test, c11.flat_case, b_flat, m_flat, ("x",), (), True),
        "attenuated": T("attenuated", lambda: _q().attenuated_signal_test, c12.att_case, b_att, m_att, ("x",), (), True),
        "density": T("density", lambda: _q().density_inversion_test, c13.density_case, b_density, m_density, ("rho",), ("z",)),
        "pressure": T("pressure", lambda: _argo().pressure_increasing_test, c13.pressure_case, b_pressure, m_pressure,
                      ("p",), documents_missing=False),
        "location": T("location", lambda: _q().location_test, c14.loc_case, b_location, m_location, ("lon", "lat")),
        "speed": T("speed", lambda: _argo().speed_test, c10.speed_case, b_speed, m_speed, ("lon", "lat"), (), True),
    }


_REG = None


def REG():
    global _REG
    if _REG is None:
        _REG = registry()
    return _REG


def any_case(tier="quick", names=None):
    """Strategy of {"test": name, "case": case} over all (or the named) tests."""
    from hypothesis import strategies as st
    reg = REG()
    names = names or list(reg)
    return st.sampled_from(names).flatmap(lambda nm: reg[nm].strat(tier).map(lambda c: {"test": nm, "case": c}))
