"""atheris (libFuzzer) target for C20: token sequences for the limit-expression evaluator and validator.

Run as:  python -m vf.fuzz_c20 <outdir> <runs> <seed> [corpus_mode]
The semantic oracles live inside the target: (A) a sequence that is well-formed by the stated grammar must evaluate to
the value of an independent recursive-descent evaluator, (B) QcVariableConfig accepts the specification iff every token
is a decimal literal / statistic / operator / parenthesis. The module-level exprStack is cleared at the top of every
iteration so that a saved input reproduces on its own. A failing input is written to <outdir>/finding.json.
"""
import json
import math
import os
import sys


def main():
    outdir, runs, seed = sys.argv[1], int(sys.argv[2]), int(sys.argv[3])
    corpus_mode = sys.argv[4] if len(sys.argv) > 4 else "empty"
    from . import env
    env.setup()
    if not env.ensure_atheris():
        print(json.dumps({"atheris": False}))
        return 0
    import atheris
    with atheris.instrument_imports(include=["ioos_qc.config_creator", "pyparsing"]):
        from ioos_qc.config_creator import QcVariableConfig, fx_parser
    from .props import c20

    VOCAB = c20.GOOD_TOK + c20.NEAR_MISS + ["min", "max", "mean", "std", "(", ")", "+", "-", "*", "/"] * 3
    STATSETS = [{"min": 1.0, "max": 5.0, "mean": 2.5, "std": 0.5}, {"min": -3.25, "max": 0.0, "mean": -1.0, "std": 1e-3},
                {"min": 0.0, "max": 0.0, "mean": 0.0, "std": 0.0}, {"min": 1e300, "max": 1e308, "mean": -1e-300, "std": 7.0}]
    counts = {"execs": 0, "wellformed": 0, "rejected": 0, "accepted": 0, "near_miss": 0}

    Bad = c20.BadTokens
    parse = c20.parse_tokens

    def fail(kind, tokens, stats, want, got):
        os.makedirs(outdir, exist_ok=True)
        summary()
        with open(os.path.join(outdir, "finding.json"), "w") as f:
            json.dump({"kind": kind, "tokens": tokens, "stats": stats, "expected": repr(want), "got": repr(got),
                       "counts": counts}, f)
        raise RuntimeError(f"C20 fuzz oracle {kind}: tokens={tokens!r} want={want!r} got={got!r}")

    def one(data):
        del fx_parser.exprStack[:]
        counts["execs"] += 1
        if counts["execs"] % 1000 == 0:
            summary()
        fdp = atheris.FuzzedDataProvider(data)
        n = fdp.ConsumeIntInRange(1, 12)
        stats = STATSETS[fdp.ConsumeIntInRange(0, len(STATSETS) - 1)]
        tokens = []
        for _ in range(n):
            if fdp.ConsumeBool():
                tokens.append(VOCAB[fdp.ConsumeIntInRange(0, len(VOCAB) - 1)])
            else:
                tokens.append(fdp.ConsumeUnicodeNoSurrogates(4).replace(" ", ""))
            if fdp.remaining_bytes() == 0:
                break
        text = " ".join(tokens)
        real = text.split(" ")
        # ---- oracle B ------------------------------------------------------------------------
        near = [t for t in real if not c20.tok_ok(t) and not c20._floatable(t)]
        unj = [t for t in real if not c20.tok_ok(t) and c20._floatable(t)]
        cfg = c20.var_config({"gross_range_test": {"suspect_min": text, "suspect_max": "1", "fail_min": "0", "fail_max": "2"}})
        try:
            QcVariableConfig(cfg)
            accepted = True
        except ValueError:
            accepted = False
        if near:
            counts["near_miss"] += 1
            if accepted:
                fail("validator_accepted", real, stats, "ValueError", "accepted")
        elif not unj and not accepted:
            fail("validator_rejected", real, stats, "accepted", "ValueError")
        counts["accepted" if accepted else "rejected"] += 1
        # ---- oracle A ------------------------------------------------------------------------
        try:
            ast = parse(real)
        except Bad:
            return
        except RecursionError:
            return
        counts["wellformed"] += 1
        try:
            want = c20.evaluate(ast, stats)
        except (ZeroDivisionError, OverflowError):
            return
        try:
            got = fx_parser.eval_fx(text, stats)
        except Exception as e:  # a well-formed expression must evaluate
            fail("eval_raised", real, stats, want, f"{type(e).__name__}: {e}")
            return
        if not (float(got) == float(want) or (math.isnan(got) and math.isnan(want))):
            fail("eval_value", real, stats, want, got)

    def summary():
        with open(os.path.join(outdir, "summary.json"), "w") as f:
            json.dump(counts, f)

    os.makedirs(outdir, exist_ok=True)
    corpus = os.path.join(outdir, "corpus")
    os.makedirs(corpus, exist_ok=True)
    if corpus_mode == "seeded":
        for i, s in enumerate([b"\x05\x00\x01\x02\x01\x03\x01\x04\x01\x05", b"\x0c" + bytes(range(1, 40)), b"\x03\x01\x01\x0a\x01\x1f\x01\x02"]):
            with open(os.path.join(corpus, f"seed{i}"), "wb") as f:
                f.write(s)
    argv = [sys.argv[0], f"-artifact_prefix={outdir}/", f"-runs={runs}", f"-seed={seed if seed else 1}", "-max_len=64", "-print_final_stats=0", "-verbosity=0",
            corpus]
    atheris.Setup(argv, one)
    atheris.Fuzz()


if __name__ == "__main__":
    main()
