"""Known-findings registry. The committed file known_findings.json is read-only at run time.

Each open entry names a classifier below: a narrow predicate over (site, case, info) that recognises exactly
the listed defect. A disagreement outside every enabled classifier is reported as a VIOLATION.
"""
import json
import os

from . import env

PATH = os.path.join(env.VERIF, "known_findings.json")

CLASSIFIERS = {}


def classifier(name):
    def deco(fn):
        CLASSIFIERS[name] = fn
        return fn
    return deco


def load():
    if not os.path.exists(PATH):
        return []
    with open(PATH) as f:
        return json.load(f)["findings"]


def classifiers(ids):
    out = {}
    by_id = {e["id"]: e for e in load()}
    for fid in ids:
        e = by_id.get(fid)
        if e and e.get("status") == "open" and e.get("classifier") in CLASSIFIERS:
            out[fid] = CLASSIFIERS[e["classifier"]]
    return out


def preflight(mod, prop_id, check_for, announce=True):
    """Replay the listed example of every open finding of this property. Returns the ids whose example still
    fails in the listed way (only those get their classifier enabled)."""
    from . import core
    enabled = []
    for e in load():
        if e.get("status") != "open" or prop_id not in e.get("properties", []):
            continue
        ex = (e.get("examples") or {}).get(prop_id)
        clf = CLASSIFIERS.get(e.get("classifier"))
        if ex is None or clf is None:
            continue
        rec = core.Recorder(prop_id)
        still = False
        try:
            core.run_case(ex["sub"], check_for(mod, ex["sub"]), ex["case"], rec)
        except core.Violation as v:
            still = bool(clf(v.site, v.case, v.info))
        if still:
            enabled.append(e["id"])
            if announce:
                print(f"KNOWN-FINDING: property={prop_id} {e['id']} {e['site']}: {e['what']}")
    return enabled


# ------------------------------------------------------------------------------------------------
# classifiers (added as findings are confirmed)


@classifier("k4_bare_streams_all_null")
def k4(site, case, info):
    """Config() given a bare stream-id mapping in which every test has null parameters: dict depth is 3, so the
    mapping is taken for a bare module mapping and no call is produced."""
    return (site == "Config" and info.get("layout") == "bare_streams" and info.get("all_kwargs_null") is True
            and not str(info.get("carrier", "")).endswith("variable_attrs") and not info.get("raised"))


def _explained(fid):
    def clf(site, case, info):
        """XarrayStream outcome that is exactly what the listed window defect produces (the check recomputes the
        expected results under that defect and they match what the stream returned)."""
        return site.startswith("XarrayStream.run") and fid in (info.get("explained_by") or []) and not info.get("raised")
    return clf


CLASSIFIERS["k1_xarray_one_sided_window"] = _explained("K-1")
CLASSIFIERS["k2_xarray_time_not_coordinate"] = _explained("K-2")
CLASSIFIERS["k3_xarray_end_inclusive"] = _explained("K-3")


@classifier("k7_store_column_collision")
def k7(site, case, info):
    """PandasStore.save: two collected results whose <stream>.<module>.<test> names are equal after CF sanitising."""
    return site == "PandasStore.save" and info.get("shared_column") is True and info.get("collision") is True


@classifier("k10_xarray_other_dim_window")
def k10(site, case, info):
    """XarrayStream with z/lat/lon on another dimension of the same size: a two-sided window makes .sel(time=...) on those
    variables raise KeyError."""
    return (site == "XarrayStream.run(axes on another dimension)" and info.get("raised") and info.get("exc") == "KeyError"
            and info.get("any_window") and info.get("has_axes") and info.get("has_time"))
