"""Schema-conformant evidence writer (/root/.vp/EVIDENCE.schema.json)."""
import json
import os

from . import env


def write(mod, prop_id, tier, seed, rec, wall, n_viol, enabled, corpus_n=0, shards=0, exhaustive_domains=(),
          budget_exhausted=False):
    from .core import jsonable
    by_class = dict(sorted(rec.by_class.items()))
    warnings = []
    for need in getattr(mod, "REQUIRED_CLASSES", []):
        if by_class.get(need, 0) == 0:
            warnings.append(f"class {need!r} was never generated in this run")
    cov = {
        "evaluations": int(rec.evaluations),
        "distinct_nontrivial": int(len(rec.nontrivial)),
        "rule": mod.RULE,
        "samples": jsonable(rec.samples[:24]),
        "by_class": by_class,
        "per_subcheck": dict(sorted(rec.per_sub.items())),
        "excluded_by_known": dict(sorted(rec.excluded.items())),
        "ambiguous_skipped": dict(sorted(rec.ambiguous.items())),
        "known_findings_enabled": list(enabled),
        "corpus_replayed": corpus_n,
        "jobs": shards,
        "budget_exhausted": bool(budget_exhausted),
        "generator_warnings": warnings,
        "exhaustive": False,
    }
    if exhaustive_domains:
        cov["exhaustive_subdomains"] = list(exhaustive_domains)
        cov["explanation"] = ("the sub-domains listed under exhaustive_subdomains were enumerated completely; "
                              "everything else is generated search")
    body = {
        "property_id": prop_id,
        "tier": tier,
        "seed": int(seed),
        "level": getattr(mod, "LEVEL", "exploration"),
        "coverage": cov,
        "assumptions": list(getattr(mod, "ASSUMPTIONS", [])),
        "wall_s": round(float(wall), 2),
        "violations": int(n_viol),
    }
    d = os.path.join(env.OUT, "evidence")
    os.makedirs(d, exist_ok=True)
    p = os.path.join(d, f"{prop_id}.json")
    tmp = p + ".tmp"
    with open(tmp, "w") as f:
        json.dump(body, f, indent=1, default=repr)
    os.replace(tmp, p)
    return p
