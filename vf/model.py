"""Reference models written from the property statements: slow, per-point, pure Python.

Each model_<test> returns, for every position, the *set of flags the property allows* there.
Values are floats or missing markers (None / NaN); times are integer epoch seconds.
"""
from __future__ import annotations

import math
from fractions import Fraction

G, U, S, F, M = 1, 2, 3, 4, 9
SEVERITY = {G: 0, S: 1, F: 2}


def miss(v) -> bool:
    return v is None or (isinstance(v, float) and math.isnan(v))


def conforms(got, allowed):
    """First index where got[i] not in allowed[i], or None."""
    for i, (g, a) in enumerate(zip(got, allowed)):
        if g not in a:
            return i
    return None


# ---- gross range / valid range (C03) ------------------------------------------------------------

def model_gross_range(x, fail_span, suspect_span=None):
    flo, fhi = sorted(fail_span)
    out = []
    for v in x:
        if miss(v):
            out.append({M})
        elif v < flo or v > fhi:
            out.append({F})
        elif suspect_span is not None and (v < min(suspect_span) or v > max(suspect_span)):
            out.append({S})
        else:
            out.append({G})
    return out


def model_valid_range(x, lo, hi, start_inclusive=True, end_inclusive=False):
    """x values and bounds are comparable python numbers (floats or integer nanoseconds); None = missing /
    unbounded."""
    out = []
    for v in x:
        if miss(v):
            out.append({M})
            continue
        bad = False
        if lo is not None:
            bad |= (v < lo) if start_inclusive else (v <= lo)
        if hi is not None:
            bad |= (v > hi) if end_inclusive else (v >= hi)
        out.append({F} if bad else {G})
    return out


# ---- spike (C09) --------------------------------------------------------------------------------

def spike_d(a, b, c, method):
    if method == "average":
        return abs(b - (a + c) / 2)
    s1, s2 = b - a, c - b
    if s1 * s2 < 0:
        return min(abs(s1), abs(s2))
    return 0.0


def model_spike(x, suspect, fail, method):
    n = len(x)
    out = []
    for i in range(n):
        if i == 0 or i == n - 1:
            out.append({U, M} if miss(x[i]) else {U})
            continue
        if miss(x[i]):
            out.append({M})
            continue
        if miss(x[i - 1]) or miss(x[i + 1]):
            # statement is silent on the exact flag; C02 allows MISSING; "not evaluated" is equally harmless
            out.append({M, U})
            continue
        d = spike_d(x[i - 1], x[i], x[i + 1], method)
        if fail is not None and d > fail:
            out.append({F})
        elif suspect is not None and d > suspect:
            out.append({S})
        else:
            out.append({G})
    return out


# ---- rate of change / speed (C10) ---------------------------------------------------------------

def model_roc(x, t, threshold):
    """Returns (allowed, ambiguous_flag)."""
    out = []
    thr = Fraction(threshold)
    for i, v in enumerate(x):
        if miss(v):
            out.append({M})
            continue
        if i == 0 or miss(x[i - 1]):
            out.append({G})
            continue
        dt = t[i] - t[i - 1]
        rate = Fraction(abs(Fraction(v) - Fraction(x[i - 1]))) / dt
        out.append({S} if rate > thr else {G})
    return out


def geodesic(lat1, lon1, lat2, lon2):
    from geographiclib.geodesic import Geodesic
    return Geodesic.WGS84.Inverse(lat1, lon1, lat2, lon2)["s12"]


def model_speed(lon, lat, t, suspect, fail):
    """Allowed flags; positions that are only partly present (own or previous) are not judged (all flags)."""
    n = len(lon)
    ANY = {G, U, S, F, M}
    out = []
    for i in range(n):
        full = not miss(lon[i]) and not miss(lat[i])
        both_missing = miss(lon[i]) and miss(lat[i])
        if i == 0:
            out.append({U, M} if both_missing else {U})
            continue
        if both_missing:
            out.append({M})
            continue
        pfull = not miss(lon[i - 1]) and not miss(lat[i - 1])
        pboth = miss(lon[i - 1]) and miss(lat[i - 1])
        if not full:
            out.append(ANY)
            continue
        if not pfull:
            # predecessor lacks a full position: speed undefined. Statement: "when both it and its predecessor
            # have a full position". MISSING (needed value missing) or UNKNOWN are the harmless outcomes; if the
            # predecessor is only partly missing nothing is stated.
            out.append({M, U} if pboth else ANY)
            continue
        v = geodesic(lat[i - 1], lon[i - 1], lat[i], lon[i]) / (t[i] - t[i - 1])
        if v > fail:
            out.append({F})
        elif v > suspect:
            out.append({S})
        else:
            out.append({G})
    return out


# ---- flat line (C11) ----------------------------------------------------------------------------

def model_flat_line(x, step, suspect_thr, fail_thr, tol):
    n = len(x)
    out = []

    def flagged(i, thr):
        k = math.floor(Fraction(thr) / Fraction(step))  # exact: thresholds and steps are dyadic
        if i < k:
            return False
        win = [v for v in x[i - k:i + 1] if not miss(v)]
        if not win:
            return False
        return (max(win) - min(win)) < tol

    for i in range(n):
        if miss(x[i]):
            out.append({M})
        elif n < 3:
            out.append({G})
        elif flagged(i, fail_thr):
            out.append({F})
        elif flagged(i, suspect_thr):
            out.append({S})
        else:
            out.append({G})
    return out


# ---- density inversion / pressure (C13) ---------------------------------------------------------

def model_density(rho, z, suspect, fail):
    n = len(rho)
    if n == 0:
        return []
    if n == 1:
        return [{U, M} if (miss(rho[0]) or miss(z[0])) else {U}]
    sev = [0] * n  # 0 good, 1 suspect, 2 fail
    for i in range(n - 1):
        if miss(rho[i]) or miss(z[i]) or miss(rho[i + 1]) or miss(z[i + 1]):
            continue
        dz = z[i + 1] - z[i]
        sgn = (dz > 0) - (dz < 0)
        delta = sgn * (rho[i + 1] - rho[i])
        s = 0
        if fail is not None and delta < fail:
            s = 2
        elif suspect is not None and delta < suspect:
            s = 1
        sev[i] = max(sev[i], s)
        sev[i + 1] = max(sev[i + 1], s)
    out = []
    for i in range(n):
        own = miss(rho[i]) or miss(z[i])
        prev = i > 0 and (miss(rho[i - 1]) or miss(z[i - 1]))
        if own or prev:
            out.append({M})
        else:
            out.append({[G, S, F][sev[i]]})
    return out


def model_pressure(p):
    """Returns allowed list, or None if the overall direction is undefined (mean step == 0 or n < 2)."""
    n = len(p)
    if n == 0:
        return []
    if n == 1:
        return [{G}]
    # the overall direction: sign of the mean step over the pairs whose two members are present
    steps = [Fraction(b) - Fraction(a) for a, b in zip(p, p[1:]) if not miss(a) and not miss(b)]
    tot = sum(steps, Fraction(0))
    if tot == 0:
        return None
    d = 1 if tot > 0 else -1
    out = []
    for i in range(n):
        if miss(p[i]):
            out.append({G, M, U})  # the statement is silent on how a missing pressure itself is flagged
        elif i == 0 or miss(p[i - 1]):
            out.append({G})  # no previous point to move relative to
        else:
            out.append({S} if d * (p[i] - p[i - 1]) <= 0 else {G})
    return out


# ---- location (C14) -----------------------------------------------------------------------------

def model_location(lon, lat, bbox, range_max):
    n = len(lon)
    out = []
    minx, miny, maxx, maxy = bbox
    for i in range(n):
        ml, ma = miss(lon[i]), miss(lat[i])
        if ml and ma:
            out.append({M})
            continue
        if ml != ma:
            out.append({F})
            continue
        if lon[i] < minx or lon[i] > maxx or lat[i] < miny or lat[i] > maxy:
            out.append({F})
            continue
        if range_max is not None and n > 1 and i > 0 and not miss(lon[i - 1]) and not miss(lat[i - 1]):
            if geodesic(lat[i - 1], lon[i - 1], lat[i], lon[i]) > range_max:
                out.append({S})
                continue
        out.append({G})
    return out


# ---- aggregation (C04) --------------------------------------------------------------------------

RANK = {M: 0, U: 1, G: 2, S: 3, F: 4}


def model_compare(vectors):
    """vectors: list of lists whose entries are numbers or None (= masked)."""
    n = len(vectors[0])
    out = []
    for i in range(n):
        best = M
        for v in vectors:
            e = v[i]
            if e is None:
                continue
            if isinstance(e, float) and (math.isnan(e) or e != int(e)):
                continue
            e = int(e)
            if e in RANK and RANK[e] > RANK[best]:
                best = e
        out.append(best)
    return out


# ---- climatology (C08) --------------------------------------------------------------------------

def period_value(t, period):
    import datetime as dtm
    import math
    d = dtm.datetime(1970, 1, 1) + dtm.timedelta(seconds=math.floor(t))
    if period in ("week", "weekofyear"):
        return d.isocalendar()[1]
    if period == "month":
        return d.month
    if period == "dayofyear":
        return d.timetuple().tm_yday
    if period == "dayofweek":
        return d.weekday()
    if period == "quarter":
        return (d.month - 1) // 3 + 1
    if period == "year":
        return d.year
    raise ValueError(period)


def clim_matches(m, t, z):
    """Does member m (dict: tspan, vspan, fspan?, zspan?, period?) apply to time t (epoch s) and depth z?"""
    lo, hi = sorted(m["tspan"])
    tv = period_value(t, m["period"]) if m.get("period") else t
    if not (lo <= tv <= hi):
        return False
    if m.get("zspan") is not None:
        if miss(z):
            return False
        zlo, zhi = sorted(m["zspan"])
        return zlo <= z <= zhi
    return True


def clim_time_matches(m, t):
    lo, hi = sorted(m["tspan"])
    tv = period_value(t, m["period"]) if m.get("period") else t
    return lo <= tv <= hi


def model_climatology(members, x, t, z):
    """Returns (allowed, per-point count of matching members)."""
    out, counts = [], []
    for i, v in enumerate(x):
        zi = z[i] if z is not None else None
        matching = [m for m in members if clim_matches(m, t[i], zi)]
        counts.append(len(matching))
        if miss(v):
            # C02: MISSING, or UNKNOWN where the test is undefined anyway (no member applies to this point)
            out.append({M} if matching else {M, U})
            continue
        if not matching:
            out.append({U})
            continue
        m = matching[-1]
        vlo, vhi = sorted(m["vspan"])
        if m.get("fspan") is not None and (v < min(m["fspan"]) or v > max(m["fspan"])):
            out.append({F})
        elif v < vlo or v > vhi:
            out.append({S})
        else:
            out.append({G})
    return out, counts
