"""Dependency bootstrap and import of ioos_qc from the tree under test.

`VERIF_REPO` (default /repo) is put first on sys.path so that `import ioos_qc` always means the
current working tree (or a mutated scratch copy used by the sensitivity harness).
"""
import logging
import os
import subprocess
import sys
import warnings

VERIF = os.path.dirname(os.path.dirname(os.path.abspath(__file__)))
REPO = os.path.abspath(os.environ.get("VERIF_REPO", "/repo"))
OUT = os.path.abspath(os.environ.get("VERIF_OUT", VERIF))
DEPS = os.path.join(VERIF, ".deps")
WHEELS = "/opt/veriftools/wheels"


class HarnessError(Exception):
    pass


def _pip_target(pkgs):
    os.makedirs(DEPS, exist_ok=True)
    cmd = [sys.executable, "-m", "pip", "install", "--quiet", "--no-index", "--find-links", WHEELS,
           "--no-deps", "--target", DEPS] + pkgs
    subprocess.run(cmd, check=True, stdout=subprocess.DEVNULL, stderr=subprocess.DEVNULL)


def ensure_hypothesis():
    try:
        import hypothesis  # noqa: F401
        return
    except ImportError:
        pass
    if DEPS not in sys.path:
        sys.path.append(DEPS)
    try:
        import hypothesis  # noqa: F401
        return
    except ImportError:
        pass
    try:
        _pip_target(["hypothesis", "sortedcontainers", "attrs"])
        import importlib
        importlib.invalidate_caches()
        import hypothesis  # noqa: F401
    except Exception as e:  # pragma: no cover
        raise HarnessError(f"cannot bootstrap hypothesis: {e!r}")


def ensure_atheris():
    """Returns True if atheris is importable (installing it into .deps if needed)."""
    if DEPS not in sys.path:
        sys.path.append(DEPS)
    try:
        import atheris  # noqa: F401
        return True
    except Exception:
        pass
    try:
        _pip_target(["atheris"])
        import importlib
        importlib.invalidate_caches()
        import atheris  # noqa: F401
        return True
    except Exception:
        return False


_done = False


def setup():
    global _done
    if _done:
        return
    warnings.simplefilter("ignore")
    os.environ.setdefault("PYTHONWARNINGS", "ignore")
    os.environ.setdefault("DASK_SCHEDULER", "synchronous")  # no thread pools: workers are forked
    if REPO in sys.path:
        sys.path.remove(REPO)
    sys.path.insert(0, REPO)
    ensure_hypothesis()
    try:
        import ioos_qc
    except Exception as e:
        raise HarnessError(f"cannot import ioos_qc from {REPO}: {e!r}")
    f = os.path.abspath(ioos_qc.__file__)
    if not f.startswith(REPO + os.sep):
        raise HarnessError(f"ioos_qc imported from {f}, expected under {REPO}")
    logging.disable(logging.CRITICAL)
    import numpy as np
    np.seterr(all="ignore")
    _done = True


if __name__ == "__main__":
    setup()
    print("ok", REPO)
