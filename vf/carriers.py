"""Carrier converters: one logical series / time axis / span rendered through every supported representation."""
from __future__ import annotations

import datetime as dtm

import numpy as np

NAN = float("nan")


def _miss(v):
    return v is None or (isinstance(v, float) and v != v)


DATA_CARRIERS = ["f64", "list_none", "list_nan", "tuple_nan", "f32", "int", "uint", "int16", "masked_nan", "masked_junk", "masked_mixed", "masked_int", "masked_fill", "series",
                 "series_shifted", "dask", "object"]
TIME_CARRIERS = ["dt64ns", "dt64us", "dt64ms", "dt64s", "dt64m", "dt64h", "dt64D", "list_datetime", "list_timestamp", "dtindex", "series",
                 "dtindex_utc", "series_utc", "epoch_list", "epoch_int", "epoch_float", "epoch_int32", "epoch_series", "epoch_index", "list_datetime_ny", "dtindex_ny", "series_ny"]
SPAN_CARRIERS = ["list", "tuple"]


def data_applicable(kind, xs):
    if kind == "int":
        return all((not _miss(v)) and abs(float(v)) < 2 ** 53 and float(v) == int(v) for v in xs) and len(xs) > 0
    if kind == "uint":
        # unsigned counts (differences of unsigned integers wrap around unless they are widened first)
        return len(xs) > 0 and all((not _miss(v)) and 0 <= float(v) < 2 ** 32 and float(v) == int(v) for v in xs)
    if kind == "int16":
        return len(xs) > 0 and all((not _miss(v)) and abs(float(v)) < 2 ** 15 and float(v) == int(v) for v in xs)
    if kind == "masked_int":
        # integer-dtype masked array with an explicit mask (packed netCDF variables look like this)
        return len(xs) > 0 and all(_miss(v) or (abs(float(v)) < 2 ** 53 and float(v) == int(v)) for v in xs)
    if kind == "f32":
        # only when the values survive the narrowing unchanged (same logical series)
        return all(_miss(v) or float(np.float32(v)) == float(v) for v in xs)
    return True


def data(xs, kind="f64", junk=None):
    """xs: list of floats / None / NaN."""
    f = [NAN if _miss(v) else float(v) for v in xs]
    if kind == "f64":
        return np.array(f, dtype=np.float64)
    if kind == "list_none":
        return [None if _miss(v) else float(v) for v in xs]
    if kind == "list_nan":
        return list(f)
    if kind == "tuple_nan":
        return tuple(f)
    if kind == "f32":
        return np.array(f, dtype=np.float32)
    if kind == "int":
        return np.array([int(v) for v in xs], dtype=np.int64)
    if kind == "uint":
        m = max(int(v) for v in xs)
        return np.array([int(v) for v in xs], dtype=np.uint8 if m < 256 else np.uint16 if m < 65536 else np.uint32)
    if kind == "int16":
        return np.array([int(v) for v in xs], dtype=np.int16)
    if kind == "masked_nan":
        return np.ma.MaskedArray(np.array(f, dtype=np.float64), mask=[_miss(v) for v in xs])
    if kind == "masked_junk":
        j = junk if junk is not None else 0.0
        return np.ma.MaskedArray(np.array([j if _miss(v) else float(v) for v in xs], dtype=np.float64),
                                 mask=[_miss(v) for v in xs])
    if kind == "masked_fill":
        # a masked array whose fill_value (mere metadata) happens to equal one of its valid, unmasked values
        pres = [float(v) for v in xs if not _miss(v)]
        a = np.ma.MaskedArray(np.array(f, dtype=np.float64), mask=[_miss(v) for v in xs])
        if pres:
            a.fill_value = pres[len(pres) // 2]
        return a
    if kind == "masked_int":
        j = int(junk) if junk is not None and abs(junk) < 2 ** 31 else -9999
        return np.ma.MaskedArray(np.array([j if _miss(v) else int(v) for v in xs], dtype=np.int64),
                                 mask=np.array([_miss(v) for v in xs], dtype=bool))
    if kind == "masked_mixed":
        # every other missing value is masked (finite junk underneath), the rest are plain unmasked NaN
        j = junk if junk is not None else 0.0
        vals, mask, k = [], [], 0
        for v in xs:
            if _miss(v):
                k += 1
                vals.append(j if k % 2 else NAN)
                mask.append(bool(k % 2))
            else:
                vals.append(float(v))
                mask.append(False)
        return np.ma.MaskedArray(np.array(vals, dtype=np.float64), mask=np.array(mask, dtype=bool))
    if kind == "series":
        import pandas as pd
        return pd.Series(f, dtype="float64")
    if kind == "series_shifted":
        import pandas as pd
        return pd.Series(f, dtype="float64", index=range(5, 5 + len(f)))
    if kind == "dask":
        import dask.array as da
        return da.from_array(np.array(f, dtype=np.float64), chunks=max(1, (len(f) + 1) // 2))
    if kind == "object":
        return np.array([None if _miss(v) else float(v) for v in xs], dtype=object)
    raise ValueError(kind)


def fractional(ts):
    return any(float(t) != int(t) for t in ts)


def time_applicable(kind, ts):
    """datetime64[s] and integer epoch carriers cannot hold sub-second instants."""
    if fractional(ts):
        return kind not in ("dt64s", "dt64m", "dt64h", "dt64D", "epoch_int", "epoch_int32")
    if kind in ("dt64m", "dt64h", "dt64D"):
        # coarse datetime units hold the instants only when they are whole minutes / hours / days
        step = {"dt64m": 60, "dt64h": 3600, "dt64D": 86400}[kind]
        return all(int(t) % step == 0 for t in ts)
    if kind == "epoch_int32":
        return len(ts) > 0 and min(ts) >= 0 and max(ts) < 2 ** 32
    return True


def time(ts, kind="dt64ns"):
    """ts: list of epoch seconds (integers, or multiples of 1/8 s for sub-second axes)."""
    if fractional(ts):
        base = np.array([int(round(float(t) * 1000)) for t in ts], dtype="int64").astype("datetime64[ms]")
        pyd = [dtm.datetime(1970, 1, 1) + dtm.timedelta(milliseconds=int(round(float(t) * 1000))) for t in ts]
    else:
        base = np.array(ts, dtype="int64").astype("datetime64[s]")
        pyd = [dtm.datetime(1970, 1, 1) + dtm.timedelta(seconds=int(t)) for t in ts]
    if kind.startswith("dt64"):
        return base.astype(f"datetime64[{kind[4:]}]")
    if kind == "list_datetime":
        return pyd
    if kind == "list_datetime_ny":
        # timezone-aware python datetimes in a zone with daylight saving: the same instants, another wall clock
        from zoneinfo import ZoneInfo
        ny = ZoneInfo("America/New_York")
        return [d.replace(tzinfo=dtm.timezone.utc).astimezone(ny) for d in pyd]
    import pandas as pd
    if kind == "list_timestamp":
        return [pd.Timestamp(d) for d in pyd]
    if kind == "dtindex":
        return pd.DatetimeIndex(base.astype("datetime64[ns]"))
    if kind == "series":
        return pd.Series(base.astype("datetime64[ns]"))
    if kind in ("dtindex_ny", "series_ny"):
        # the same instants as timezone-aware pandas objects of a zone with daylight saving
        idx = pd.DatetimeIndex(base.astype("datetime64[ns]")).tz_localize("UTC").tz_convert("America/New_York")
        return idx if kind == "dtindex_ny" else pd.Series(idx)
    if kind == "dtindex_utc":
        return pd.DatetimeIndex(base.astype("datetime64[ns]")).tz_localize("UTC")
    if kind == "series_utc":
        return pd.Series(pd.DatetimeIndex(base.astype("datetime64[ns]")).tz_localize("UTC"))
    if kind == "epoch_list":
        return [float(t) for t in ts] if fractional(ts) else [int(t) for t in ts]
    if kind == "epoch_int":
        return np.array(ts, dtype="int64")
    if kind == "epoch_int32":
        # 32-bit epoch seconds (the usual storage type of netCDF time variables)
        return np.array(ts, dtype="int64").astype("int32" if max(ts) < 2 ** 31 else "uint32")
    if kind in ("epoch_series", "epoch_index"):
        # numbers of seconds since the epoch in a pandas object (a "time" column of integers / floats)
        vals = [float(t) for t in ts] if fractional(ts) else [int(t) for t in ts]
        return pd.Series(vals) if kind == "epoch_series" else pd.Index(vals)
    if kind == "epoch_float":
        return np.array(ts, dtype="float64")
    raise ValueError(kind)


def span(sp, kind="list"):
    if sp is None:
        return None
    return tuple(sp) if kind == "tuple" else list(sp)


class Carrier:
    """Bundle of carrier choices used by the per-test argument builders (vf/tests.py)."""

    def __init__(self, data="f64", time="dt64ns", span="list", aux=None, junk=None):
        self.data_kind = data
        self.aux_kind = aux or data
        self.time_kind = time
        self.span_kind = span
        self.junk = junk

    def d(self, xs):
        k = self.data_kind if data_applicable(self.data_kind, xs) else "f64"
        return data(xs, k, self.junk)

    def a(self, xs):
        k = self.aux_kind if data_applicable(self.aux_kind, xs) else "f64"
        return data(xs, k, self.junk)

    def t(self, ts):
        return time(ts, self.time_kind)

    def s(self, sp):
        return span(sp, self.span_kind)

    def describe(self):
        return {"data": self.data_kind, "aux": self.aux_kind, "time": self.time_kind, "span": self.span_kind}


CANON = Carrier()
