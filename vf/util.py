"""Helpers shared by property modules."""
from __future__ import annotations

import numpy as np

from .core import SKIP, jsonable

NAN = float("nan")


def arr(x):
    """Canonical carrier for data/aux series: float64 ndarray with NaN for missing."""
    return np.array([NAN if v is None else v for v in x], dtype=np.float64)


def tarr(t):
    """Canonical carrier for times: datetime64[ns] from integer epoch seconds."""
    return np.array(t, dtype="int64").astype("datetime64[s]").astype("datetime64[ns]")


def epoch32(t):
    """Whole epoch seconds in the narrowest of int32 / uint32 / int64 that holds them (netCDF time variables are
    commonly 32 bit); fractional seconds stay float64."""
    if any(float(v) != int(v) for v in t):
        return np.array(t, dtype="float64")
    a = np.array(t, dtype="int64")
    if a.size and a.min() >= -2 ** 31 and a.max() < 2 ** 31:
        return a.astype("int32")
    if a.size and a.min() >= 0 and a.max() < 2 ** 32:
        return a.astype("uint32")
    return a


def flags(rec, site, result, n, **info):
    """Normalise a QC result to a list of python ints (masked entries become None). Reports a disagreement
    (and returns SKIP if that is excluded) when the result is not a 1-d array-like of n integer values."""
    if result is SKIP:
        return SKIP
    try:
        data = np.ma.getdata(result)
        mask = np.ma.getmaskarray(result)
        shape = np.shape(data)
    except Exception as e:  # not array-like
        rec.fail(site, f"result is not array-like: {type(result).__name__} ({e})", got=repr(result)[:200], **info)
        return SKIP
    if shape != (n,):
        rec.fail(site, f"result shape {shape} != ({n},)", expected=[n], got=list(shape), bad_shape=True, **info)
        return SKIP
    out = []
    for d, m in zip(np.asarray(data).tolist(), np.asarray(mask).tolist()):
        if m:
            out.append(None)
        else:
            try:
                out.append(int(d) if float(d) == int(d) else d)
            except Exception:
                out.append(d)
    return out


def compare(rec, site, got, allowed, **info):
    """got: list of flags, allowed: list of sets. Reports every non-conforming index (each may be excluded by a
    known-finding classifier individually)."""
    for i, (g, a) in enumerate(zip(got, allowed)):
        if g not in a:
            rec.fail(site, f"index {i}: got flag {g}, property allows {sorted(a)}",
                     expected=[sorted(s) for s in allowed], got=got, index=i, got_flag=g, allowed=sorted(a), **info)


def carr(case, xs):
    """The series xs in the carrier the case asks for (default: float64 ndarray with NaN). The logical content is the
    same in every carrier, so reference models are unaffected."""
    from . import carriers
    kind = case.get("carrier", "f64")
    if kind == "f64" or not carriers.data_applicable(kind, xs):
        return arr(xs)
    return carriers.data(xs, kind, case.get("junk", 0.0))


def sint(v):
    """Output values as ints when they are integral numbers; anything else (NaN, strings, None) is kept as it is so that a
    strange output becomes a reported difference instead of an exception inside the harness."""
    try:
        f = float(v)
        if f == f and f == int(f):
            return int(f)
    except (TypeError, ValueError, OverflowError):
        pass
    return v if (v is None or isinstance(v, (int, float, str, bool))) else repr(v)
