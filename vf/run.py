"""CLI: python -m vf.run <ID> [--tier quick|thorough] [--replay FILE] [--jobs N]

exit 0 property held on everything explored (KNOWN-FINDING lines possible)
exit 1 a `VIOLATION property=<ID> replay=<path>` line was printed
exit 2 harness error (never reported as a violation)
"""
from __future__ import annotations

import argparse
import glob
import importlib
import json
import multiprocessing as mp
import os
import sys
import time
import traceback

from . import env


def _load(prop_id):
    env.setup()
    return importlib.import_module(f"vf.props.{prop_id.lower()}")


def _subs(mod):
    return {s.name: s for s in getattr(mod, "SUBS", [])}


def _enums(mod):
    return {e.name: e for e in getattr(mod, "ENUMS", [])}


def _check_for(mod, name):
    s = _subs(mod).get(name)
    if s is not None:
        return s.check
    e = _enums(mod).get(name)
    if e is not None:
        return e.check
    raise env.HarnessError(f"{mod.ID}: no sub-check named {name!r}")


# ------------------------------------------------------------------------------------------------
# worker side


def _job(arg):
    """Runs in a pool worker. arg = (prop_id, kind, name, tier, seed, n, chunk, enabled_ids, temp_excl)."""
    from . import core, findings
    prop_id, kind, name, tier, seed, n, chunk, enabled_ids, temp_excl = arg
    t0 = time.monotonic()
    try:
        mod = _load(prop_id)
        rec = core.Recorder(prop_id, findings.classifiers(enabled_ids))
        rec.temp_excluded = set(map(tuple, temp_excl))
        viol = None
        if kind == "hyp":
            sub = _subs(mod)[name]
            viol = core.run_hypothesis(sub, tier, seed, n, rec)
        else:
            en = _enums(mod)[name]
            try:
                for case in en.cases(chunk):
                    core.run_case(en.name, en.check, case, rec)
            except core.Violation as v:
                viol = v
        out = rec.export()
        out["violation"] = None if viol is None else {
            "sub": viol.sub or name, "site": viol.site, "msg": viol.msg, "case": viol.case,
            "expected": viol.expected, "got": viol.got, "info": viol.info, "seed": seed}
        out["wall"] = time.monotonic() - t0
        out["error"] = None
        return out
    except BaseException as e:  # harness error inside a worker
        return {"error": f"{type(e).__name__}: {e}\n{traceback.format_exc()}", "job": [prop_id, kind, name, seed]}


# ------------------------------------------------------------------------------------------------


def _write_replay(prop_id, v):
    from . import core
    d = os.path.join(env.OUT, "replays", prop_id)
    os.makedirs(d, exist_ok=True)
    body = {"property": prop_id, "sub": v["sub"], "site": v["site"], "msg": v["msg"], "case": v["case"],
            "expected": v["expected"], "got": v["got"], "info": v.get("info"), "seed": v.get("seed")}
    h = core.chash([v["sub"], v["case"]]).hex()
    p = os.path.join(d, f"{h}.json")
    with open(p, "w") as f:
        json.dump(body, f, indent=1, default=repr)
    return p


def _replay_file(mod, path, rec):
    """Re-executes one saved case. Returns a violation dict or None."""
    from . import core
    with open(path) as f:
        body = json.load(f)
    check = _check_for(mod, body["sub"])
    try:
        core.run_case(body["sub"], check, body["case"], rec)
    except core.Violation as v:
        return {"sub": body["sub"], "site": v.site, "msg": v.msg, "case": v.case, "expected": v.expected,
                "got": v.got, "info": v.info, "seed": body.get("seed")}
    return None


def main(argv=None):
    ap = argparse.ArgumentParser()
    ap.add_argument("prop")
    ap.add_argument("--tier", default=os.environ.get("VERIF_TIER") or "quick", choices=["quick", "thorough"])
    ap.add_argument("--replay")
    ap.add_argument("--jobs", type=int, default=int(os.environ.get("VERIF_JOBS", "16")))
    ap.add_argument("--only", help="comma separated sub-check names (development)")
    ap.add_argument("--scale", type=float, default=float(os.environ.get("VERIF_SCALE", "1")))
    args = ap.parse_args(argv)
    prop_id = args.prop.upper()
    try:
        seed = int(os.environ.get("VERIF_SEED") or 1)
    except ValueError:
        seed = 1
    t0 = time.monotonic()
    try:
        return _main(prop_id, args, seed, t0)
    except env.HarnessError as e:
        print(f"HARNESS-ERROR property={prop_id}: {e}", file=sys.stderr)
        return 2
    except Exception:
        print(f"HARNESS-ERROR property={prop_id}:\n{traceback.format_exc()}", file=sys.stderr)
        return 2


def _main(prop_id, args, seed, t0):
    mod = _load(prop_id)
    from . import core, evidence, findings

    # ---- replay mode -----------------------------------------------------------------------
    if args.replay:
        enabled = findings.preflight(mod, prop_id, _check_for, announce=False)
        rec = core.Recorder(prop_id, findings.classifiers(enabled))
        v = _replay_file(mod, args.replay, rec)
        if v is not None:
            print(f"VIOLATION property={prop_id} replay={args.replay}")
            print(f"  {v['site']}: {v['msg']}\n  expected={v['expected']}\n  got={v['got']}")
            return 1
        print(f"replay of {args.replay}: property held")
        return 0

    tier = args.tier
    main_rec = core.Recorder(prop_id)
    violations = []

    # ---- known findings: replay each listed example, announce, enable its classifier ---------
    enabled = findings.preflight(mod, prop_id, _check_for, announce=True)
    main_rec.enabled = findings.classifiers(enabled)

    # ---- corpus replay ---------------------------------------------------------------------
    corpus_n = 0
    for p in sorted(glob.glob(os.path.join(env.VERIF, "corpus", prop_id, "*.json"))):
        corpus_n += 1
        v = _replay_file(mod, p, main_rec)
        if v is not None:
            v["from_corpus"] = os.path.relpath(p, env.VERIF)
            violations.append(v)
            main_rec.temp_excluded.add((v["sub"], v["site"]))

    # ---- campaigns -------------------------------------------------------------------------
    only = set(args.only.split(",")) if args.only else None
    budget_exhausted = False
    shards_used = 0
    exhaustive_domains = []

    def build_jobs(temp_excl):
        jobs = []
        for s in getattr(mod, "SUBS", []):
            if only and s.name not in only:
                continue
            total = int((s.quick if tier == "quick" else s.thorough) * args.scale)
            if total <= 0:
                continue
            nshards = s.quick_shards if tier == "quick" else 16
            nshards = max(1, min(nshards, args.jobs, total))
            per = max(1, total // nshards)
            for k in range(nshards):
                jobs.append((prop_id, "hyp", s.name, tier, seed * 1000 + k, per, None, enabled, temp_excl))
        for e in getattr(mod, "ENUMS", []):
            if only and e.name not in only:
                continue
            if tier not in e.tiers:
                continue
            chunks = e.chunks(tier)
            for ch in chunks:
                jobs.append((prop_id, "enum", e.name, tier, seed, 0, ch, enabled, temp_excl))
        return jobs

    for e in getattr(mod, "ENUMS", []):
        if tier in e.tiers and (not only or e.name in only):
            exhaustive_domains.append(f"{e.name}: {e.describe}")

    rounds = 0
    ctx = mp.get_context("fork")
    while rounds < 4:
        rounds += 1
        temp_excl = sorted(main_rec.temp_excluded)
        jobs = build_jobs(temp_excl)
        if rounds > 1:
            # re-run only the sub-checks that produced a violation, to look behind it
            names = {v["sub"] for v in violations}
            jobs = [j for j in jobs if j[2] in names]
        if not jobs:
            break
        shards_used = max(shards_used, len(jobs))
        new = []
        nproc = max(1, min(args.jobs, len(jobs)))
        if nproc == 1:
            results = map(_job, jobs)
        else:
            pool = ctx.Pool(nproc, maxtasksperchild=None)
            results = pool.imap_unordered(_job, jobs, chunksize=1)
        try:
            for out in results:
                if out.get("error"):
                    raise env.HarnessError(f"worker failed: {out['error']}")
                main_rec.merge(out)
                if out["violation"] is not None:
                    v = out["violation"]
                    key = (v["sub"], v["site"])
                    if key not in main_rec.temp_excluded:
                        main_rec.temp_excluded.add(key)
                        new.append(v)
        finally:
            if nproc > 1:
                pool.terminate()
                pool.join()
        violations.extend(new)
        if not new:
            break

    # ---- engine-specific extra campaign (C20: atheris) -------------------------------------------
    extra = getattr(mod, "EXTRA", None)
    if extra is not None and not only:
        for v in extra(tier, seed, args.jobs, main_rec):
            violations.append(v)

    # ---- report ----------------------------------------------------------------------------
    wall = time.monotonic() - t0
    replay_paths = []
    for v in violations:
        p = _write_replay(prop_id, v)
        replay_paths.append(p)
    evidence.write(mod, prop_id, tier, seed, main_rec, wall, len(violations), enabled,
                   corpus_n=corpus_n, shards=shards_used, exhaustive_domains=exhaustive_domains,
                   budget_exhausted=budget_exhausted or main_rec.budget_exhausted)
    for v, p in zip(violations, replay_paths):
        rel = os.path.relpath(p, env.VERIF) if p.startswith(env.VERIF + os.sep) else p
        print(f"VIOLATION property={prop_id} replay={rel}")
        print(f"  sub={v['sub']} site={v['site']}: {v['msg']}")
        print(f"  case={json.dumps(v['case'], default=repr)[:1500]}")
        print(f"  expected={json.dumps(v['expected'], default=repr)[:400]} got={json.dumps(v['got'], default=repr)[:400]}")
    print(f"{prop_id} tier={tier} seed={seed} evaluations={main_rec.evaluations} "
          f"distinct_nontrivial={len(main_rec.nontrivial)} excluded_by_known={sum(main_rec.excluded.values())} "
          f"violations={len(violations)} wall={wall:.1f}s")
    return 1 if violations else 0


if __name__ == "__main__":
    sys.exit(main())
