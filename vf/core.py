"""Core of the checking framework: Recorder, Violation, sub-check descriptors, campaign drivers.

A property module (vf/props/cXX.py) exposes
    ID, TITLE, RULE, ASSUMPTIONS, SUBS = [Sub(...)], ENUMS = [Enum(...)] (optional)
Every generated case is a plain JSON-able dict so that a shrunk failure can be written out and replayed
with no Hypothesis involved.
"""
from __future__ import annotations

import hashlib
import json
import math
import os
import time
import traceback
from collections import Counter
from dataclasses import dataclass, field
from typing import Callable, Optional

from . import env

G, U, S, F, M = 1, 2, 3, 4, 9
FLAGSET = (G, U, S, F, M)


class Violation(Exception):
    def __init__(self, site, msg, case=None, sub=None, expected=None, got=None, info=None):
        super().__init__(f"{site}: {msg}")
        self.site = site
        self.msg = msg
        self.case = case
        self.sub = sub
        self.expected = expected
        self.got = got
        self.info = info or {}


class StopShrink(KeyboardInterrupt):
    """Raised to leave Hypothesis once the shrink budget is used up."""


SKIP = object()  # returned by Recorder.call when the call raised and the failure was excluded


def jsonable(x):
    """Best-effort conversion of numpy/pandas objects into JSON-able python values."""
    import numpy as np
    if x is None or isinstance(x, (bool, int, str)):
        return x
    if isinstance(x, float):
        return x
    if isinstance(x, (np.bool_,)):
        return bool(x)
    if isinstance(x, np.integer):
        return int(x)
    if isinstance(x, np.floating):
        return float(x)
    if isinstance(x, np.ma.MaskedArray):
        d = np.ma.getdata(x).tolist()
        m = np.ma.getmaskarray(x).tolist()
        return {"data": jsonable(d), "mask": m}
    if isinstance(x, np.ndarray):
        if x.dtype.kind in "Mm":
            return [str(v) for v in x.tolist()] if x.ndim else str(x)
        return jsonable(x.tolist())
    if isinstance(x, dict):
        return {str(k): jsonable(v) for k, v in x.items()}
    if isinstance(x, (list, tuple, set, frozenset)):
        return [jsonable(v) for v in x]
    return repr(x)


def canon(case) -> str:
    return json.dumps(case, sort_keys=True, default=repr)


def chash(case) -> bytes:
    return hashlib.blake2b(canon(case).encode(), digest_size=8).digest()


def is_missing(v) -> bool:
    return v is None or (isinstance(v, float) and math.isnan(v))


class Recorder:
    """Counts what a run explored and routes disagreements (known finding / temp exclusion / Violation)."""

    MAX_SAMPLES = 8

    def __init__(self, prop_id, enabled=None):
        self.prop_id = prop_id
        self.enabled = dict(enabled or {})  # finding id -> classifier(site, case, info) -> bool
        self.temp_excluded = set()  # (sub, site) buckets already reported in this run
        self.evaluations = 0
        self.nontrivial = set()
        self.by_class = Counter()
        self.excluded = Counter()
        self.ambiguous = Counter()
        self.samples = []
        self._seen_samples = 0
        self.cur_case = None
        self.cur_sub = None
        self.first_fail_t = None
        self.best_fail = None
        self.shrink_budget = None
        self.deadline = None
        self.budget_exhausted = False
        self.per_sub = Counter()

    # ---- case lifecycle -------------------------------------------------------------------
    def begin(self, sub, case):
        if self.first_fail_t is not None and self.shrink_budget is not None:
            if time.monotonic() - self.first_fail_t > self.shrink_budget:
                raise StopShrink()
        if self.deadline is not None and time.monotonic() > self.deadline:
            self.budget_exhausted = True
            raise StopShrink()
        self.evaluations += 1
        self.per_sub[sub] += 1
        self.cur_case = case
        self.cur_sub = sub

    def note(self, nontrivial, labels=()):
        for lab in labels:
            self.by_class[f"{self.cur_sub}:{lab}"] += 1
        if nontrivial:
            h = chash([self.cur_sub, self.cur_case])
            if h not in self.nontrivial:
                self.nontrivial.add(h)
                self._seen_samples += 1
                n = self._seen_samples
                # keep the first few and then a thinning tail so samples spread over the run
                if len(self.samples) < self.MAX_SAMPLES:
                    self.samples.append({"sub": self.cur_sub, "case": self.cur_case})
                elif n & (n - 1) == 0:  # powers of two
                    self.samples[self.MAX_SAMPLES // 2 + (n.bit_length() % (self.MAX_SAMPLES // 2))] = {
                        "sub": self.cur_sub, "case": self.cur_case}

    def skip(self, reason):
        self.ambiguous[f"{self.cur_sub}:{reason}"] += 1

    # ---- disagreements --------------------------------------------------------------------
    def fail(self, site, msg, expected=None, got=None, **info):
        """Report a disagreement. Returns normally iff it is excluded (known finding / already reported)."""
        case = self.cur_case
        for fid, clf in self.enabled.items():
            try:
                hit = clf(site, case, info)
            except Exception:
                hit = False
            if hit:
                self.excluded[fid] += 1
                return
        if (self.cur_sub, site) in self.temp_excluded:
            self.excluded[f"already-reported:{self.cur_sub}:{site}"] += 1
            return
        v = Violation(site, msg, case=case, sub=self.cur_sub, expected=jsonable(expected), got=jsonable(got),
                      info=jsonable(info))
        if self.first_fail_t is None:
            self.first_fail_t = time.monotonic()
        size = len(canon(case))
        if self.best_fail is None or size <= self.best_fail[0]:
            self.best_fail = (size, v)
        raise v

    def call(self, site, fn, *a, **k):
        """Call into ioos_qc; an exception on input the property declares valid is a disagreement."""
        try:
            return fn(*a, **k)
        except (Violation, StopShrink):
            raise
        except Exception as e:
            self.fail(site, f"raised {type(e).__name__}: {e}", expected="no exception",
                      got=f"{type(e).__name__}: {str(e)[:200]}", exc=type(e).__name__,
                      exc_msg=str(e)[:300], raised=True)
            return SKIP

    def expect_raises(self, site, exc_types, fn, *a, **k):
        """The statement says the call is rejected. Returns True if it was."""
        try:
            r = fn(*a, **k)
        except exc_types:
            return True
        except (Violation, StopShrink):
            raise
        except Exception as e:
            self.fail(site, f"rejected with {type(e).__name__} instead of {exc_types}", expected=str(exc_types),
                      got=f"{type(e).__name__}: {str(e)[:200]}", exc=type(e).__name__, wrong_exc=True)
            return False
        self.fail(site, "accepted input that must be rejected", expected=str(exc_types), got=jsonable(r),
                  not_rejected=True)
        return False

    # ---- merge ----------------------------------------------------------------------------
    def export(self):
        return {
            "evaluations": self.evaluations, "nontrivial": self.nontrivial, "by_class": self.by_class,
            "excluded": self.excluded, "ambiguous": self.ambiguous, "samples": self.samples,
            "per_sub": self.per_sub, "budget_exhausted": self.budget_exhausted,
        }

    def merge(self, d):
        self.evaluations += d["evaluations"]
        self.nontrivial |= d["nontrivial"]
        self.by_class.update(d["by_class"])
        self.excluded.update(d["excluded"])
        self.ambiguous.update(d["ambiguous"])
        self.per_sub.update(d["per_sub"])
        self.budget_exhausted = self.budget_exhausted or d.get("budget_exhausted", False)
        for s in d["samples"]:
            same = sum(1 for t in self.samples if t["sub"] == s["sub"])
            if same < 3 and len(self.samples) < 24:
                self.samples.append(s)


@dataclass
class Sub:
    """A Hypothesis-driven sub-check."""
    name: str
    strategy: Callable  # (tier) -> SearchStrategy yielding JSON-able cases
    check: Callable  # (case, rec) -> None ; calls rec.note / rec.fail
    quick: int = 1000  # total cases in the quick tier
    thorough: int = 10000  # total cases in the thorough tier
    quick_shards: int = 4
    machine: Optional[Callable] = None  # for stateful subs: (rec, tier) -> RuleBasedStateMachine subclass
    steps: int = 30
    budget_quick: float = 120.0  # wall-clock cap per shard; running out means "explored less", never a violation
    budget_thorough: float = 900.0


@dataclass
class Enum:
    """An exhaustive sweep over a finite sub-domain, split into chunks run on the pool."""
    name: str
    chunks: Callable  # (tier) -> list of chunk descriptors (JSON-able)
    cases: Callable  # (chunk) -> iterator of cases
    check: Callable
    describe: str = ""
    tiers: tuple = ("thorough",)


def is_repo_exception(exc) -> bool:
    """True if the innermost frames of exc's traceback are inside the tree under test (or a library it called)
    rather than in the harness."""
    tb = traceback.extract_tb(exc.__traceback__)
    repo = env.REPO + os.sep
    verif = env.VERIF + os.sep
    # walk from innermost outward: first frame that is in either tree decides
    for fr in reversed(tb):
        fn = os.path.abspath(fr.filename)
        if fn.startswith(repo):
            return True
        if fn.startswith(verif):
            return False
    return False


def run_case(sub_name, check, case, rec):
    """Run one case through a check, converting stray exceptions from ioos_qc into violations."""
    rec.begin(sub_name, case)
    try:
        check(case, rec)
    except (Violation, StopShrink):
        raise
    except Exception as e:
        if is_repo_exception(e):
            rec.fail("exception", f"raised {type(e).__name__}: {e}", expected="no exception",
                     got=f"{type(e).__name__}: {str(e)[:200]}", exc=type(e).__name__, raised=True)
        else:
            raise


def hyp_settings(n, steps=None):
    from hypothesis import HealthCheck, Phase, Verbosity, settings
    kw = dict(max_examples=n, database=None, deadline=None, derandomize=False, report_multiple_bugs=False,
              suppress_health_check=list(HealthCheck), print_blob=False,
              phases=[Phase.generate, Phase.target, Phase.shrink], verbosity=Verbosity.quiet)
    if steps is not None:
        kw["stateful_step_count"] = steps
    return settings(**kw)


def run_hypothesis(sub: Sub, tier, seed, n, rec: Recorder):
    """Run one campaign; returns a Violation (shrunk as far as the budget allowed) or None."""
    import hypothesis
    from hypothesis import given
    rec.first_fail_t = None
    rec.best_fail = None
    rec.shrink_budget = 45 if tier == "quick" else 120
    rec.deadline = time.monotonic() + (sub.budget_quick if tier == "quick" else sub.budget_thorough)
    try:
        if sub.machine is not None:
            from hypothesis.stateful import run_state_machine_as_test
            machine = sub.machine(rec, tier)
            run_state_machine_as_test(hypothesis.seed(seed)(machine), settings=hyp_settings(n, sub.steps))
        else:
            @hypothesis.seed(seed)
            @hyp_settings(n)
            @given(sub.strategy(tier))
            def t(case):
                run_case(sub.name, sub.check, case, rec)
            t()
    except Violation as v:
        return v
    except StopShrink:
        return rec.best_fail[1] if rec.best_fail else None
    except hypothesis.errors.Flaky as e:  # a check that is not a pure function of its case: harness problem
        if rec.best_fail:
            return rec.best_fail[1]
        raise env.HarnessError(f"flaky check {sub.name}: {e}")
    finally:
        rec.shrink_budget = None
        rec.first_fail_t = None
        rec.deadline = None
    return None
