"""Shared Hypothesis strategies. Every strategy yields plain JSON-able python values.

Values come from dyadic grids (k * 2^-m, small magnitude) so that every sum, difference, halving and offset is
exact in float64 and an oracle may demand strict behaviour *on* a threshold without rounding flakiness.
"""
from __future__ import annotations

import math

from hypothesis import strategies as st

NAN = float("nan")


def dyadic(m=3, lo=-64, hi=64):
    s = 1 << m
    return st.integers(int(lo * s), int(hi * s)).map(lambda k: k / s)


def pos_dyadic(m=3, hi=64):
    s = 1 << m
    return st.integers(1, int(hi * s)).map(lambda k: k / s)


missing_marker = st.sampled_from([None, NAN])


@st.composite
def length(draw, max_n, min_n=0, small_bias=True):
    """Lengths with 0,1,2,3 forced to a sizeable share, and 1 in 60 up to ten times max_n."""
    k = draw(st.integers(0, 59)) if small_bias else 1
    if small_bias and k % 6 == 0 and k != 0:
        return draw(st.integers(min_n, max(min_n, min(3, max_n))))
    if k == 0 and max_n >= 20:
        # now and then a series an order of magnitude longer (size-dependent code paths, chunked carriers)
        return draw(st.integers(max_n + 1, max_n * 10))
    return draw(st.integers(min_n, max_n))


@st.composite
def _segment(draw, vals, step):
    kind = draw(st.sampled_from(["plateau", "plateau", "ramp", "spike", "dspike", "alt", "free", "free"]))
    ln = draw(st.integers(1, 6))
    base = draw(vals)
    if kind == "plateau":
        return [base] * ln
    if kind == "ramp":
        d = draw(step)
        return [base + i * d for i in range(ln)]
    if kind == "spike":
        h = draw(step)
        return [base, base + h, base]
    if kind == "dspike":
        h = draw(step)
        return [base, base + h, base + h, base]
    if kind == "alt":
        h = draw(step)
        return [base + (h if i % 2 else 0) for i in range(ln)]
    return draw(st.lists(vals, min_size=ln, max_size=ln))


@st.composite
def present_series(draw, n, vals=None, step=None):
    """Exactly n present values built from plateau/ramp/spike/alternating/free segments."""
    vals = vals if vals is not None else dyadic()
    step = step if step is not None else dyadic(3, -8, 8)
    out = []
    while len(out) < n:
        out.extend(draw(_segment(vals, step)))
    return out[:n]


@st.composite
def overlay_missing(draw, xs, markers=missing_marker, allow=True):
    """Replaces a drawn subset of xs by missing markers (None / NaN)."""
    if not allow or not xs:
        return list(xs)
    mode = draw(st.sampled_from(["none", "none", "few", "few", "many", "all"]))
    if mode == "none":
        return list(xs)
    out = list(xs)
    n = len(out)
    if mode == "all":
        idx = range(n)
    elif mode == "few":
        idx = draw(st.lists(st.integers(0, n - 1), min_size=1, max_size=max(1, min(3, n)), unique=True))
    else:
        idx = [i for i in range(n) if draw(st.booleans())]
    for i in idx:
        out[i] = draw(markers)
    return out


@st.composite
def series(draw, max_n=40, min_n=0, vals=None, step=None, missing=True, markers=missing_marker):
    n = draw(length(max_n, min_n))
    xs = draw(present_series(n, vals, step))
    return draw(overlay_missing(xs, markers, allow=missing))


# ---- time axes ---------------------------------------------------------------------------------
# integer epoch seconds; carriers turn them into datetime64 etc.

_T0 = [
    -10,  # 1969-12-31T23:59:50
    1577491200,  # 2019-12-28
    1577750400,  # 2019-12-31
    1577836800,  # 2020-01-01
    1582848000,  # 2020-02-28
    1582934400,  # 2020-02-29
    1583020800,  # 2020-03-01
    1614470400,  # 2021-02-28
    0,
    1615701600,  # 2021-03-14T06:00Z: one hour before daylight saving starts in America/New_York
    1636261200,  # 2021-11-07T05:00Z: one hour before it ends
    1615701600 - 86400,
]
STEPS = [1, 2, 7, 60, 900, 3600, 86400, 90000]


@st.composite
def time_axis(draw, n, steps=None, regular=None):
    """Strictly increasing whole-second epoch times. Returns (times, steps_used)."""
    steps = steps or STEPS
    t0 = draw(st.one_of(st.sampled_from(_T0), st.integers(-315619200, 2840140800)))
    if regular is None:
        regular = draw(st.booleans())
    if regular:
        d = draw(st.sampled_from(steps))
        ds = [d] * max(0, n - 1)
    else:
        how = draw(st.sampled_from(["listed", "listed", "small", "balanced"]))
        m = max(0, n - 1)
        if how == "listed":
            ds = draw(st.lists(st.sampled_from(steps), min_size=m, max_size=m))
        elif how == "small":
            lo, hi = min(steps), max(min(steps) * 4, min(steps) + 30)
            ds = draw(st.lists(st.integers(lo, hi), min_size=m, max_size=m))
        else:
            # steps that average to the first step although they differ (a, a-d, a+d, ...): total span == (n-1) * first step
            a = draw(st.sampled_from([s for s in steps if s >= 2] or steps))
            ds = [a]
            while len(ds) < m:
                d = draw(st.integers(1, max(1, a - 1)))
                ds += [a - d, a + d]
            ds = ds[:m]
            if m >= 2 and sum(ds) != a * m:
                ds[-1] = a * m - sum(ds[:-1]) if a * m - sum(ds[:-1]) > 0 else ds[-1]
    t = [t0]
    for d in ds:
        t.append(t[-1] + d)
    return t[:n], ds


# large offsets: values of realistic big magnitude (pressures in Pa, epoch-like counters) that differ by small dyadic
# steps. Every sum, difference and mean of two such values is still exact in float64 (2^40 + k/8 needs 44 bits), so
# the oracles stay exact; tolerances that scale with magnitude (np.isclose) and cancellation-prone formulas do not.
big_offset = st.sampled_from([0.0, 0.0, 0.0, 0.0, 2.0 ** 17, -(2.0 ** 22), 2.0 ** 30, 2.0 ** 40])


def shifted(xs, off):
    return [v if (v is None or v != v) else v + off for v in xs]


def near(bounds, q=0.125, big=16.0):
    """Values on, just inside/outside and far from each bound."""
    pts = []
    for b in bounds:
        if b is None or (isinstance(b, float) and math.isnan(b)):
            continue
        pts.extend([b - big, b - q, b, b + q, b + big])
    if not pts:
        return dyadic()
    return st.one_of(st.sampled_from(pts), dyadic())


PROP_CARRIERS = ["f64", "f64", "f64", "list_none", "masked_junk", "masked_mixed", "masked_nan", "masked_int", "masked_fill", "series"]


def with_carrier(case_strategy):
    """Adds a data carrier (and the junk value hidden under masks) to a per-test case: the per-test properties are then
    also sensitive to representation-dependent slips inside the function they judge."""
    return case_strategy.flatmap(lambda c: st.tuples(st.sampled_from(PROP_CARRIERS), st.sampled_from([0.0, 1.0, -9999.0, 1e20, 12.125]))
                                 .map(lambda cj: {**c, "carrier": cj[0], "junk": cj[1]}))
